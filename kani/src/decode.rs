//! Shared between the Kani harnesses and the replay tool: every symbolic datum of a harness is drawn
//! as one byte array and decoded here, so that a Kani counterexample (the concrete bytes) can be fed to
//! the same decoder in an ordinary binary and re-executed on the real code.

use garble_lang::circuit::{Circuit as SsaCircuit, Gate};
use garble_lang::register_circuit::{And, Circuit as RegCircuit, Input, Inst, Not, Op, Reg, Xor};

/// Source of the symbolic data: `kani::any()` inside a harness, recorded values in the replay tool.
pub trait Src {
    fn u8(&mut self) -> u8;
    fn u32(&mut self) -> u32;
    fn bool(&mut self) -> bool;
}

/// Replays the values of a Kani counterexample (in the order the harness drew them).
pub struct Recorded {
    pub vals: Vec<u64>,
    pub pos: usize,
}

impl Recorded {
    fn next(&mut self) -> u64 {
        let v = if self.pos < self.vals.len() { self.vals[self.pos] } else { 0 };
        self.pos += 1;
        v
    }
}

impl Src for Recorded {
    fn u8(&mut self) -> u8 {
        self.next() as u8
    }
    fn u32(&mut self) -> u32 {
        self.next() as u32
    }
    fn bool(&mut self) -> bool {
        self.next() != 0
    }
}

pub const MAX_PARTIES: usize = 2;
pub const MAX_BITS: usize = 2;

/// bytes -> register circuit with <= `max_insts` instructions, <= 2 parties x <= 2 bits, <= 2 outputs,
/// max_reg_count <= 5; every register / party / input index is a full-range u32.
pub fn decode_reg(cur: &mut impl Src, max_insts: usize) -> RegCircuit {
    let parties = (cur.u8() as usize) % (MAX_PARTIES + 1);
    let mut input_regs = Vec::new();
    for _ in 0..parties {
        input_regs.push((cur.u8() as usize) % (MAX_BITS + 1));
    }
    let n = (cur.u8() as usize) % (max_insts + 1);
    let mut insts = Vec::new();
    for _ in 0..n {
        let out = Reg(cur.u32());
        let a = cur.u32();
        let b = cur.u32();
        let op = match cur.u8() % 4 {
            0 => Op::Xor(Xor(Reg(a), Reg(b))),
            1 => Op::And(And(Reg(a), Reg(b))),
            2 => Op::Not(Not(Reg(a))),
            _ => Op::Input(Input { party: a, input: b }),
        };
        insts.push(Inst { out, op });
    }
    let max_reg_count = (cur.u8() as usize) % 6;
    let n_out = (cur.u8() as usize) % 3;
    let mut output_regs = Vec::new();
    for _ in 0..n_out {
        output_regs.push(Reg(cur.u32()));
    }
    RegCircuit { input_regs, insts, max_reg_count, output_regs, and_ops: 0 }
}

/// bytes -> SSA circuit with <= `max_gates` gates, <= 2 parties x <= 2 bits, <= 2 outputs; wire indices full-range u32.
pub fn decode_ssa(cur: &mut impl Src, max_gates: usize) -> SsaCircuit {
    let parties = (cur.u8() as usize) % (MAX_PARTIES + 1);
    let mut input_gates = Vec::new();
    for _ in 0..parties {
        input_gates.push((cur.u8() as usize) % MAX_BITS);
    }
    let n = (cur.u8() as usize) % (max_gates + 1);
    let mut gates = Vec::new();
    for _ in 0..n {
        let a = cur.u32() as usize;
        let b = cur.u32() as usize;
        gates.push(match cur.u8() % 3 {
            0 => Gate::Xor(a, b),
            1 => Gate::And(a, b),
            _ => Gate::Not(a),
        });
    }
    let n_out = (cur.u8() as usize) % 3;
    let mut output_gates = Vec::new();
    for _ in 0..n_out {
        output_gates.push(cur.u32() as usize);
    }
    SsaCircuit { input_gates, gates, output_gates }
}

/// inputs of exactly the declared shape (one Vec<bool> per party, declared number of bits)
pub fn decode_inputs(cur: &mut impl Src, shape: &[usize]) -> Vec<Vec<bool>> {
    let mut inputs = Vec::new();
    for &bits in shape {
        let mut v = Vec::new();
        for _ in 0..bits {
            v.push(cur.bool());
        }
        inputs.push(v);
    }
    inputs
}

/// Executable form of validate()'s intended postcondition = eval()'s precondition for register circuits:
/// every operand / output register exists and has been written before it is read, every input instruction
/// names an existing bit of an existing party, every instruction writes an existing register.
pub fn valid_spec_reg(c: &RegCircuit) -> Result<(), &'static str> {
    let mut set = [false; 8];
    if c.max_reg_count > 8 {
        return Err("harness bound: max_reg_count > 8");
    }
    let n = c.max_reg_count;
    for inst in &c.insts {
        match inst.op {
            Op::Xor(Xor(a, b)) | Op::And(And(a, b)) => {
                if a.0 as usize >= n || b.0 as usize >= n {
                    return Err("operand register does not exist");
                }
                if !set[a.0 as usize] || !set[b.0 as usize] {
                    return Err("operand register read before it was written");
                }
            }
            Op::Not(Not(a)) => {
                if a.0 as usize >= n {
                    return Err("operand register does not exist");
                }
                if !set[a.0 as usize] {
                    return Err("operand register read before it was written");
                }
            }
            Op::Input(Input { party, input }) => {
                if party as usize >= c.input_regs.len() {
                    return Err("input instruction names a party that does not exist");
                }
                if input as usize >= c.input_regs[party as usize] {
                    return Err("input instruction names an input bit that does not exist");
                }
            }
        }
        if inst.out.0 as usize >= n {
            return Err("instruction writes a register that does not exist");
        }
        set[inst.out.0 as usize] = true;
    }
    for o in &c.output_regs {
        if o.0 as usize >= n {
            return Err("output register does not exist");
        }
        if !set[o.0 as usize] {
            return Err("output register was never written");
        }
    }
    Ok(())
}

/// Reference interpreter for register circuits over `Option<bool>` registers: `None` = never written.
/// Returns Err(description) as soon as the circuit would read something that does not exist or is undefined.
pub fn ref_eval_reg(c: &RegCircuit, inputs: &[Vec<bool>]) -> Result<Vec<bool>, &'static str> {
    let mut regs: Vec<Option<bool>> = vec![None; c.max_reg_count];
    fn rd(regs: &[Option<bool>], r: Reg) -> Result<bool, &'static str> {
        match regs.get(r.0 as usize) {
            None => Err("operand register does not exist"),
            Some(None) => Err("operand register read before it was written"),
            Some(Some(b)) => Ok(*b),
        }
    }
    for inst in &c.insts {
        let v = match inst.op {
            Op::Xor(Xor(a, b)) => rd(&regs, a)? ^ rd(&regs, b)?,
            Op::And(And(a, b)) => rd(&regs, a)? & rd(&regs, b)?,
            Op::Not(Not(a)) => !rd(&regs, a)?,
            Op::Input(Input { party, input }) => match inputs.get(party as usize) {
                None => return Err("input instruction names a party that does not exist"),
                Some(p) => match p.get(input as usize) {
                    None => return Err("input instruction names an input bit that does not exist"),
                    Some(b) => *b,
                },
            },
        };
        match regs.get_mut(inst.out.0 as usize) {
            None => return Err("output register of an instruction does not exist"),
            Some(slot) => *slot = Some(v),
        }
    }
    let mut out = Vec::new();
    for r in &c.output_regs {
        out.push(rd(&regs, *r).map_err(|_| "output register does not exist or was never written")?);
    }
    Ok(out)
}

/// Reference interpreter for SSA circuits.
pub fn ref_eval_ssa(c: &SsaCircuit, inputs: &[Vec<bool>]) -> Result<Vec<bool>, &'static str> {
    let mut wires: Vec<bool> = Vec::new();
    for p in inputs {
        for b in p {
            wires.push(*b);
        }
    }
    for g in &c.gates {
        let v = match *g {
            Gate::Xor(a, b) => {
                if a >= wires.len() || b >= wires.len() {
                    return Err("gate reads a wire that is not defined yet");
                }
                wires[a] ^ wires[b]
            }
            Gate::And(a, b) => {
                if a >= wires.len() || b >= wires.len() {
                    return Err("gate reads a wire that is not defined yet");
                }
                wires[a] & wires[b]
            }
            Gate::Not(a) => {
                if a >= wires.len() {
                    return Err("gate reads a wire that is not defined yet");
                }
                !wires[a]
            }
        };
        wires.push(v);
    }
    let mut out = Vec::new();
    for o in &c.output_gates {
        if *o >= wires.len() {
            return Err("output wire does not exist");
        }
        out.push(wires[*o]);
    }
    Ok(out)
}
