//! Kani harnesses over the real crate (path dependency on /repo with feature verif_hooks).
pub mod decode;

#[cfg(kani)]
mod c16 {
    use crate::decode::*;

    struct KaniSrc;
    impl Src for KaniSrc {
        fn u8(&mut self) -> u8 {
            kani::any()
        }
        fn u32(&mut self) -> u32 {
            kani::any()
        }
        fn bool(&mut self) -> bool {
            kani::any()
        }
    }

    fn reg_safe(max_insts: usize) {
        let mut cur = KaniSrc;
        let c = decode_reg(&mut cur, max_insts);
        // validate() itself indexes register_set[out] with max_reg_count == 0: outside the statement of C16
        kani::assume(c.max_reg_count >= 1);
        if c.validate().is_ok() {
            let inputs = decode_inputs(&mut cur, &c.input_regs);
            kani::cover!(true, "some circuit validates");
            let out = c.eval(&inputs);
            assert!(out.len() == c.output_regs.len(), "one output bit per declared output");
        }
    }

    fn reg_defined(max_insts: usize) {
        let mut cur = KaniSrc;
        let c = decode_reg(&mut cur, max_insts);
        kani::assume(c.max_reg_count >= 1);
        if c.validate().is_ok() {
            kani::cover!(true, "some circuit validates");
            assert!(valid_spec_reg(&c).is_ok(), "validated circuit reads only existing, defined registers and inputs");
        }
    }

    /// C16 (register circuits): validate() == Ok  ==>  eval on inputs of the declared shape does not panic and
    /// returns one bit per declared output.  BOUNDED: <= 2 instructions, <= 2 parties x <= 2 bits, <= 2 outputs.
    #[kani::proof]
    #[kani::unwind(4)]
    fn c16_register_eval_safe_2() {
        reg_safe(2)
    }

    #[kani::proof]
    #[kani::unwind(5)]
    fn c16_register_eval_safe_3() {
        reg_safe(3)
    }

    /// C16 (register circuits): validate() == Ok ==> the reference interpreter over Option<bool> registers never
    /// reads a register that was not written, an input that does not exist, or an undefined output register.
    #[kani::proof]
    #[kani::unwind(4)]
    fn c16_register_reads_defined_2() {
        reg_defined(2)
    }

    /// C16 (SSA circuits).  BOUNDED: <= 2 gates, <= 2 parties x <= 2 bits, <= 2 outputs.
    #[kani::proof]
    #[kani::unwind(5)]
    fn c16_ssa_eval_safe_2() {
        let mut cur = KaniSrc;
        let c = decode_ssa(&mut cur, 2);
        if c.validate().is_ok() {
            let inputs = decode_inputs(&mut cur, &c.input_gates);
            kani::cover!(true, "some circuit validates");
            let out = c.eval(&inputs);
            assert!(out.len() == c.output_gates.len(), "one output bit per declared output");
        }
    }
}

#[cfg(kani)]
mod bits {
    use garble_lang::verif_hooks::*;

    /// C09: unsigned_to_bits appends exactly `size` bits, bit i being bit size-1-i of n (big-endian), for every
    /// u64 and every size <= 64; wires_as_unsigned decodes them back to n whenever n fits `size` bits.
    /// COMPLETE over u64 x {0..=64}: every loop is unrolled to its width-bounded maximum (unwinding assertions on).
    #[kani::proof]
    #[kani::unwind(66)]
    fn c09_unsigned_to_bits_layout_and_roundtrip() {
        let n: u64 = kani::any();
        let size: usize = kani::any();
        kani::assume(size <= 64);
        let mut bits = Vec::new();
        unsigned_to_bits(n, size, &mut bits);
        assert!(bits.len() == size);
        let i: usize = kani::any();
        kani::assume(i < size);
        assert!(bits[i] == ((n >> (size - 1 - i)) & 1 == 1));
        if size == 64 || n < (1u64 << size) {
            assert!(wires_as_unsigned(&bits) == n);
        }
    }

    /// C09: signed_to_bits is the big-endian two's complement of n in `size` bits.
    #[kani::proof]
    #[kani::unwind(66)]
    fn c09_signed_to_bits_layout() {
        let n: i64 = kani::any();
        let size: usize = kani::any();
        kani::assume(size <= 64);
        let mut bits = Vec::new();
        signed_to_bits(n, size, &mut bits);
        assert!(bits.len() == size);
        let i: usize = kani::any();
        kani::assume(i < size);
        assert!(bits[i] == ((n >> (size - 1 - i)) & 1 == 1));
    }

    /// C02: the 32 constant wires of unsigned_as_usize_bits(n) are the big-endian low 32 bits of n (contract assumed by
    /// the Verus unit `panic`).  COMPLETE over u64.
    #[kani::proof]
    #[kani::unwind(34)]
    fn c02_unsigned_as_usize_bits() {
        let n: u64 = kani::any();
        let bits = unsigned_as_usize_bits(n);
        let i: usize = kani::any();
        kani::assume(i < 32);
        assert!(bits[i] == ((n >> (31 - i)) & 1) as usize);
    }

    fn extend(old: usize, new: usize) {
        let signed: bool = kani::any();
        let mut v: Vec<usize> = Vec::new();
        for _ in 0..old {
            v.push(kani::any());
        }
        let orig = v.clone();
        extend_to_bits(&mut v, signed, new);
        assert!(v.len() == new);
        let i: usize = kani::any();
        kani::assume(i < new);
        if i >= new - old {
            assert!(v[i] == orig[i - (new - old)], "low bits preserved");
        } else if signed {
            assert!(v[i] == orig[0], "high bits are copies of the sign bit");
        } else {
            assert!(v[i] == 0, "high bits are zero");
        }
    }

    /// C03: cast helper extend_to_bits, symbolic wires and signedness; one harness per widening (old, new) pair.
    #[kani::proof]
    #[kani::unwind(66)]
    fn c03_extend_8_16() { extend(8, 16) }
    #[kani::proof]
    #[kani::unwind(66)]
    fn c03_extend_8_32() { extend(8, 32) }
    #[kani::proof]
    #[kani::unwind(66)]
    fn c03_extend_8_64() { extend(8, 64) }
    #[kani::proof]
    #[kani::unwind(66)]
    fn c03_extend_16_32() { extend(16, 32) }
    #[kani::proof]
    #[kani::unwind(66)]
    fn c03_extend_16_64() { extend(16, 64) }
    #[kani::proof]
    #[kani::unwind(66)]
    fn c03_extend_32_64() { extend(32, 64) }
    #[kani::proof]
    #[kani::unwind(66)]
    fn c03_extend_1_8() { extend(1, 8) }
    #[kani::proof]
    #[kani::unwind(66)]
    fn c03_extend_1_16() { extend(1, 16) }
    #[kani::proof]
    #[kani::unwind(66)]
    fn c03_extend_1_32() { extend(1, 32) }
    #[kani::proof]
    #[kani::unwind(66)]
    fn c03_extend_1_64() { extend(1, 64) }
}

