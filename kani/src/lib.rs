//! Kani harnesses over the real crate (path dependency on /repo with feature verif_hooks).
pub mod decode;

#[cfg(kani)]
mod c16 {
    use crate::decode::*;

    struct KaniSrc;
    impl Src for KaniSrc {
        fn u8(&mut self) -> u8 {
            kani::any()
        }
        fn u32(&mut self) -> u32 {
            kani::any()
        }
        fn bool(&mut self) -> bool {
            kani::any()
        }
    }

    /// C16 (register circuits): validate() == Ok  ==>  eval on inputs of the declared shape does not panic,
    /// returns one bit per declared output and agrees with the reference interpreter, which never reads an
    /// undefined register / missing input.  BOUNDED: <= 3 instructions, <= 2 parties x <= 2 bits, <= 2 outputs.
    #[kani::proof]
    #[kani::unwind(7)]
    fn c16_register_validate_then_eval() {
        let mut cur = KaniSrc;
        let c = decode_reg(&mut cur, 3);
        // validate() itself indexes register_set[out] with max_reg_count == 0: outside the statement of C16
        kani::assume(c.max_reg_count >= 1);
        if c.validate().is_ok() {
            let inputs = decode_inputs(&mut cur, &c.input_regs);
            kani::cover!(true, "some circuit validates");
            let expected = ref_eval_reg(&c, &inputs);
            let out = c.eval(&inputs);
            assert!(out.len() == c.output_regs.len(), "one output bit per declared output");
            assert!(expected.is_ok(), "validated circuit reads only existing, defined registers and inputs");
            if let Ok(e) = expected {
                assert!(e == out, "eval agrees with the reference interpreter");
            }
        }
    }

    /// C16 (SSA circuits), same statement.  BOUNDED: <= 3 gates, <= 2 parties x <= 2 bits, <= 2 outputs.
    #[kani::proof]
    #[kani::unwind(8)]
    fn c16_ssa_validate_then_eval() {
        let mut cur = KaniSrc;
        let c = decode_ssa(&mut cur, 3);
        if c.validate().is_ok() {
            let inputs = decode_inputs(&mut cur, &c.input_gates);
            kani::cover!(true, "some circuit validates");
            let expected = ref_eval_ssa(&c, &inputs);
            let out = c.eval(&inputs);
            assert!(out.len() == c.output_gates.len(), "one output bit per declared output");
            assert!(expected.is_ok(), "validated circuit reads only defined wires");
            if let Ok(e) = expected {
                assert!(e == out, "eval agrees with the reference interpreter");
            }
        }
    }
}
