//! Kani harnesses over the real crate (path dependency on /repo with feature verif_hooks).
pub mod decode;

#[cfg(kani)]
mod c16 {
    use crate::decode::*;

    struct KaniSrc;
    impl Src for KaniSrc {
        fn u8(&mut self) -> u8 {
            kani::any()
        }
        fn u32(&mut self) -> u32 {
            kani::any()
        }
        fn bool(&mut self) -> bool {
            kani::any()
        }
    }

    fn reg_safe(max_insts: usize) {
        let mut cur = KaniSrc;
        let c = decode_reg(&mut cur, max_insts);
        // validate() itself indexes register_set[out] with max_reg_count == 0: outside the statement of C16
        kani::assume(c.max_reg_count >= 1);
        if c.validate().is_ok() {
            let inputs = decode_inputs(&mut cur, &c.input_regs);
            kani::cover!(true, "some circuit validates");
            let out = c.eval(&inputs);
            assert!(out.len() == c.output_regs.len(), "one output bit per declared output");
        }
    }

    fn reg_defined(max_insts: usize) {
        let mut cur = KaniSrc;
        let c = decode_reg(&mut cur, max_insts);
        kani::assume(c.max_reg_count >= 1);
        if c.validate().is_ok() {
            kani::cover!(true, "some circuit validates");
            assert!(valid_spec_reg(&c).is_ok(), "validated circuit reads only existing, defined registers and inputs");
        }
    }

    /// C16 (register circuits): validate() == Ok  ==>  eval on inputs of the declared shape does not panic and
    /// returns one bit per declared output.  BOUNDED: <= 2 instructions, <= 2 parties x <= 2 bits, <= 2 outputs.
    #[kani::proof]
    #[kani::unwind(4)]
    fn c16_register_eval_safe_2() {
        reg_safe(2)
    }

    #[kani::proof]
    #[kani::unwind(5)]
    fn c16_register_eval_safe_3() {
        reg_safe(3)
    }

    /// C16 (register circuits): validate() == Ok ==> the reference interpreter over Option<bool> registers never
    /// reads a register that was not written, an input that does not exist, or an undefined output register.
    #[kani::proof]
    #[kani::unwind(4)]
    fn c16_register_reads_defined_2() {
        reg_defined(2)
    }

    /// C16 (SSA circuits).  BOUNDED: <= 2 gates, <= 2 parties x <= 2 bits, <= 2 outputs.
    #[kani::proof]
    #[kani::unwind(5)]
    fn c16_ssa_eval_safe_2() {
        let mut cur = KaniSrc;
        let c = decode_ssa(&mut cur, 2);
        if c.validate().is_ok() {
            let inputs = decode_inputs(&mut cur, &c.input_gates);
            kani::cover!(true, "some circuit validates");
            let out = c.eval(&inputs);
            assert!(out.len() == c.output_gates.len(), "one output bit per declared output");
        }
    }
}
