#!/bin/bash
# usage: iso_seeds.sh <outdir> <id>...      (development helper)
# Runs seeded changes against an ISOLATED pair (a worktree of /verif's HEAD and a worktree of /repo's HEAD) so that /repo and /verif can be
# edited meanwhile.  For an id with a scratch worktree /root/seedwt/<id> the demo / suite confirmations are run there first and
# patch.diff + seed_demo.rs are taken from it; otherwise /verif/seeded/<id>/patch.diff is used.  Results: <outdir>/<id>/.
set -u
OUT=$1; shift
ISO=/root/iso
mkdir -p $OUT
if [ ! -d $ISO/verif ]; then
  mkdir -p $ISO
  git -C /verif worktree add -q --detach $ISO/verif HEAD
  git -C /repo worktree add -q --detach $ISO/repo HEAD
  sed -i "s|path = \"/repo\"|path = \"$ISO/repo\"|" $ISO/verif/replay/Cargo.toml $ISO/verif/kani/Cargo.toml
fi
for ID in "$@"; do
  PROP=${ID%%-*}; D=$OUT/$ID; mkdir -p $D
  WT=/root/seedwt/$ID
  if [ -d $WT ]; then
    (cd $WT && git diff -- src > $D/patch.diff; [ -s $D/patch.diff ] || cp patch.diff $D/patch.diff; cp tests/seed_demo.rs $D/seed_demo.rs
     export CARGO_TARGET_DIR=$WT/target
     cargo test --offline --test seed_demo 2>&1 | grep -E "^test result|error\[" | head -3 > $D/demo_with.txt
     mv tests/seed_demo.rs /root/seed_demo_$ID.rs; cargo test --offline --workspace --no-fail-fast 2>&1 | grep -E "^test result" | awk '{p+=$4; f+=$6} END {print "passed=" p " failed=" f}' > $D/suite_with.txt; mv /root/seed_demo_$ID.rs tests/seed_demo.rs
     git apply -R $D/patch.diff; cargo test --offline --test seed_demo 2>&1 | grep -E "^test result|error\[" | head -3 > $D/demo_without.txt; git apply $D/patch.diff)
  else
    cp /verif/seeded/$ID/patch.diff $D/patch.diff
  fi
  if ! git -C $ISO/repo apply $D/patch.diff 2>/dev/null; then echo "$ID: PATCH DOES NOT APPLY" | tee $D/result.txt; git -C $ISO/repo checkout -- .; continue; fi
  (cd $ISO/verif && VERIF_REPO=$ISO/repo ./check $PROP quick > $D/check_$PROP.txt 2>&1; echo "exit=$?" >> $D/check_$PROP.txt)
  git -C $ISO/repo checkout -- .
  cp $ISO/verif/replays/$PROP.replay.txt $D/replay_$PROP.txt 2>/dev/null
  echo "$ID: $(tail -1 $D/check_$PROP.txt) $(grep -c 'failed obligation' $D/check_$PROP.txt) failed obligations; $(cat $D/demo_with.txt 2>/dev/null | head -1 | cut -c1-40) | $(cat $D/suite_with.txt 2>/dev/null) | $(cat $D/demo_without.txt 2>/dev/null | head -1 | cut -c1-40)" | tee $D/result.txt
done
