"""Properties not claimed, with the reason (DESIGN.md §4).  Entries for properties that appear in props.PROPS are ignored."""

HOOK_COMMITS = ['238f505', 'e9abb28', '4b3c44f']

UNDER_CONSTRUCTION = 'check under construction in this round (planned in DESIGN.md §4); not yet claimed'

NOT_APPLICABLE = {
    'C01': 'whole-compiler correctness: the oracle is a source-level interpreter that does not exist in the repository and the '
           'function is one 650-line recursive match over Box<Expr>/String/HashMap/BTreeMap environments and dyn FnMut callbacks; '
           'neither Verus (unsupported constructs) nor Kani (HashMap-based builder times out) can ingest it. Its function-level '
           'ingredients are decided under C02/C03/C04/C10/C16.',
    'C05': 'a relation between the 2600-line type checker (inference over recursive Expr<Type>, HashMap<String,StructDef>) and the '
           'compiler with no function boundary that carries it; the contractable ingredients are proved under C04 / C16 (every emitted gate '
           'refers only to earlier wires; CircuitBuilder::build returns a circuit with the parties of the builder and 161 panic outputs followed '
           'by the requested outputs, which satisfies the structural conditions of Circuit::validate when there is an input bit, and validate is '
           'complete for them); that the requested outputs have the size of the return type and the parties the sizes of the parameter types is a '
           'fact about TypedExpr::compile and the checker, which are not under contract.',
    'C06': 'determinism under arbitrary HashMap seeds is a 2-trace property of iteration order; vstd exposes HashMap only through its '
           'order-free Map view and rejects the iterating functions; not a pre/postcondition of one call.',
    'C07': 'totality of scan/parse/check/compile over all strings: &str/char iterators, Peekable token streams and mutual recursion '
           'over the grammar; Verus has no str byte reasoning or iterator-adapter specs, Kani would need an input bound of a few bytes.',


}
