"""Property table: which units / harnesses decide which property, and how a failure is searched for a witness."""

# Trusted base shared by every Verus unit (DESIGN.md §3)
VERUS_TRUST = [
    'A3: vstd specifications of Vec, HashMap, slices, arrays (assumed to describe std)',
    'A4: Z3 4.12 and the Verus VC generator / Rust front end',
    'extraction: tools/weave.py copies item text verbatim from /repo/src and applies only the desugaring rules R0-R44 and lift options of DESIGN.md 2.2 (applications counted per function in functions_under_contract)',
]

PROPS = {
    'C04': dict(
        units=['builder', 'prune'],
        deps=[],
        witness=[['c04', '--no-c15'], ['c02', '--random', '20000', '--programs', '600']],
        witness_thorough=[['c04', '--no-c15', '--depth', '3', '--random', '3000000'], ['c02', '--random', '2000000', '--programs', '20000']],
        level='proof',
        technique='Verus contracts (requires/ensures/decreases + builder invariant) on the real push_* functions and on the real CircuitBuilder::new, remove_unused_gates and build (loops with invariants, closure contracts; semantic lemmas by induction over the wire number), extracted each run',
        claim='Unbounded deductive proof (Verus/Z3) that every gate-emitting function of the real CircuitBuilder returns a wire whose '
              'Boolean function is the literal operation of its operands, re-establishes the builder invariant and preserves the '
              'function of every earlier wire - for every builder state (= every request history), every input assignment, '
              'de-duplication on or off. remove_unused_gates (unit prune), for every builder state with well-formed gates and every list of requested '
              'outputs: the marking loop marks a set of gates that contains the gate of every requested output and of every wire of the panic record and '
              'is closed under operands; the renumbering closure maps a kept wire to its old number minus the number of dropped gates up to it; the '
              'pruned gate list again reads earlier wires only; and for every input assignment every returned output wire and every wire of the '
              'renumbered panic record computes, in the pruned list, exactly the Boolean function the corresponding wire computed before '
              '(wire_pres / rec_pres). Termination of the marking loop is NOT proved (exec_allows_no_decreases_clause). CircuitBuilder::new: wire '
              'numbering starts after the two constants and the inputs (shift == 2 + sum(input_gates)). build, for every builder satisfying that and '
              'well-formedness: the returned SSA circuit has the same parties, 161 + |outputs| outputs, and for every input assignment output k computes '
              '(ssa_val, the function the real SSA eval is proved to return, unit ssacirc) exactly what wire k of (panic record, requested outputs) '
              'computed in the builder before pruning (val): constant false / true become the gates Xor(0,0) / Not(false) after the inputs, input wire i '
              'becomes i - 2, x ^ true becomes NOT x; with at least one input bit the circuit satisfies the structural conditions Circuit::validate '
              'checks (ssa_valid). The composition over TypedExpr::compile is not under contract; the bounded differential searches on the real code '
              'stay as cross-checks.',
        note='Trusted: vstd specs of Vec/HashMap; derived Hash/Eq of BuilderGate obey the key model (admit); gate_counter+1 does not '
             'overflow usize (assume in push_gate); extraction rules R0-R3 (builder unit), R3, R16b, R22b, R31, R32 (unit prune: index loops for the '
             'iter_mut loops incl. the write-back of the two enum fields, map + collect as a loop, extend of an array as a verified helper); closure '
             'contracts on the closures of remove_unused_gates and build (R35: block bodies, immutable parameters); extend(iter.map(closure)) and '
             'extend(closure(array)) as loops / verified helper (R33, R34); `mut self` (R28); the println! statistics block guarded by the constant-false '
             'PRINT_OPTIMIZATION_RATIO dropped (R0b, the weaver checks the constant is false); Vec::shrink_to_fit changes the capacity only '
             '(assume_specification); PanicResult::ok() returns constant wires only (external_body); 161 + |outputs| fits usize (precondition); '
             'Z3/Verus. Unverified: composition over compile.',
        title='optimisations never change the computed function (gate emission: every push_* returns a wire '
              'computing the literal operation, for every builder state and input assignment; dedup on and off; remove_unused_gates and build preserve every output)',
        unverified=['termination of the marking loop of remove_unused_gates',
                    'composition over TypedExpr::compile'],
    ),
    'C15': dict(
        units=['builder', 'prune'],
        deps=[],
        witness=['c04', '--only-c15'],
        witness_thorough=['c04', '--only-c15', '--depth', '3', '--random', '3000000'],
        level='proof',
        technique='Verus data-structure invariant (c15) on the real CircuitBuilder, proved preserved by every push_* function; Verus contracts on the real remove_unused_gates (minimality of the marked set) and build (transfer to the final numbering)',
        claim='Unbounded deductive proof (Verus/Z3) of the emission-side invariant: no AND gate with a constant or repeated operand '
              'is ever pushed; with de-duplication on, no two AND gates with the same unordered operand pair; and/xor with a '
              'constant-false/itself, mux and condswap of equal wires push nothing. remove_unused_gates (unit prune): in the pruned, renumbered gate list '
              'every gate belongs to every operand-closed set of gates that contains the requested outputs and the wires of the panic record - i.e. '
              'every remaining gate reaches an output (all_reach; marking-loop invariant: the marks and the stack lie inside every such set); an AND '
              'gate keeps non-constant, different operands and no two AND gates get the same operand pair through the renumbering (it is injective on '
              'kept wires). build (same unit): in the returned SSA circuit every gate except the two constant gates belongs to every operand-closed set of '
              'gates that contains the outputs (ssa_all_reach); no AND gate reads a constant wire or the same wire twice and, with de-duplication, no two '
              'AND gates read the same pair (ssa_and_ok, ssa_no_dup_and) - given that the builder satisfied the emission-side invariant. The composition '
              'over compile (that only data movement emits no AND request) is not under contract: bounded differential.',
        note='Same trusted base as C04. Unverified: the consequence for whole data-movement programs (composition over compile).',
        title='emission-side invariant: no AND gate with a constant or repeated operand is ever pushed, with '
              'de-duplication no two AND gates share an unordered operand pair; trivial and/xor/mux/condswap push nothing; in the built circuit every gate but the two constants reaches an output',
        unverified=['termination of the marking loop of remove_unused_gates',
                    'consequence for whole data-movement programs (composition over compile)'],
    ),
    'C02': dict(
        units=['panic', 'branches', 'access'],
        deps=[('builder', 'C04')],
        kani=[dict(name='c02_unsigned_as_usize_bits', fn='circuit::unsigned_as_usize_bits', label='complete-over-u64',
                   bound='all u64 values; the 32-iteration loop fully unrolled (unwinding assertions on)')],
        witness=['c02', '--random', '20000', '--programs', '600'],
        witness_thorough=['c02', '--random', '4000000', '--programs', '40000'],
        level='proof',
        technique='Verus contracts on the real push_panic_if / mux_uncached_panic / mux_panic / replace_panic_with, with the '
                  'recorded-conditions invariant; the If, &&, || and Match arms of TypedExpr::compile lifted (R5) with the recursive compile calls as '
                  'opaque functions carrying the induction hypothesis; gate-emitting callees by their contracts (proved in unit builder)',
        claim='Unbounded deductive proof (Verus/Z3) on the real panic-record functions: after push_panic_if the record reports a panic iff '
              'one was reported before or the condition holds, an earlier panic is never overwritten, and otherwise reason and location '
              'are those of this (first) failing operation; at a merge (mux_uncached_panic / mux_panic) every wire of the record is that '
              'of the branch taken and only conditions recorded on both paths stay recorded; replace_panic_with is a pure swap. For every '
              'builder state, record, condition wire and input assignment. Branching arms of TypedExpr::compile (unit branches, structural '
              'induction: the recursive compile calls are opaque functions whose contract is the induction hypothesis "well-formed, wires keep '
              'their functions, a panic once raised is never dropped or overwritten"): the If arm compiles the condition first, both branches '
              'from the record as it was after the condition, and merges so that the record is wire for wire that of the branch taken; the && '
              'and || arms leave the record after x wherever x alone decides (the short-circuited operand is silent); the Match arm compiles '
              'every clause from the record before the match and the first clause whose pattern matches decides the record (and the result '
              'wires); each arm re-establishes the induction hypothesis. Panic sources: overflow, shift amount and division by zero are proved at '
              'their operator arms under C03; array read access (unit access, the ArrayAccess arm lifted from its mux tree on): an OutOfBounds '
              'panic is recorded exactly when the index value is not below the number of elements; the same for the two checks of array element '
              'assignment (the Assign::Array arm and the nested-access arm of VarAssign in TypedStmt::compile, lifted as methods of a stand-in '
              'for TypedStmt because they read self.meta). compile_block and the plain for loop (ForEachLoop arm) are proved to keep the induction '
              'hypothesis over all their statements / iterations; the per-pair closure of the for-join loop (process_binding, lifted) starts from the '
              'record before this pair and leaves it untouched where the pair is not joined (a non-joined iteration is silent); the function-call arm '
              '(FnCall, lifted) evaluates the arguments in order and then the body, keeps the induction hypothesis and returns exactly the builder state in which '
              'the evaluation of the body ended; blocks, for loops and calls are additionally proved to do no panic handling of their own (between the '
              'recursive compile calls the builder is not touched, so no panic raised inside a statement, an iteration or a body can be dropped); the same for '
              'the `let` and `let mut` statement arms. The merge network of for-join loops (compile_bitonic_merge) and the value part of assignments are outside '
              'every contract; a bounded differential search over operation trees and source programs on the real code stands in for them '
              'and for build/EvalPanic layout (labelled bounded): reason and line of the first failing operation, and for plain `let v = x op y;` statements '
              'also the reported span (start and end column) of the operation.',
        note='Trusted: core builder contracts are proved in unit builder (run as part of this check); vstd specs of HashSet/arrays; '
             'std::mem::replace specification (assume_specification); unsigned_as_usize_bits contract (external_body in Verus; proved complete over u64 by the Kani '
             'harness c02_unsigned_as_usize_bits); source locations < 2^32. '
             'Unit branches: TExpr / TPat / TypedProgram / Env are opaque types; TExpr::compile and TPat::compile are external_body with the '
             'induction hypothesis as contract (structural induction is not closed by Verus over the real recursive function); mux_envs, Env::clone / '
             'push / pop are external_body (they do not touch the record); derived Clone of CachedPanicResult returns an equal value (external_body); '
             'ghost out-parameters are added to the lifted arms. Unit access: unsigned_to_bits is external_body (layout proved by the C09 Kani harness); num_elems < 2^index_bits, '
             'elem_bits >= 1 for a non-empty array and no usize overflow of the mux-tree counters are preconditions; R5d (from=), R21. The callee definition of the FnCall arm '
             '(prg.fn_defs lookup) is a parameter of the lifted function (R5c); parameter names and Env::let_in_current_scope are opaque. Unverified: the merge network of for-join loops.',
        title='panic record: panic iff earlier or cond; never overwritten; first failure wins; untaken branch silent at merges',
        unverified=['the element selected / replaced by the mux trees of array reads and element assignments (value, not panic): bounded differential only',
                    'for-join loop lowering (compile_bitonic_merge), the value written by assignment statements: bounded differential only',
                    'the induction over the whole of TypedExpr::compile is not closed mechanically (each branching arm is proved against the hypothesis)',
                    'EvalPanic::parse and build (panic record wiring to outputs): bounded differential search only'],
    ),
    'C16': dict(
        units=['regcirc', 'ssacirc'],
        deps=[],
        kani=[
            dict(name='c16_register_eval_safe_2', fn='register_circuit::Circuit::{validate,eval}', max_items=2, label='bounded',
                 bound='<= 2 instructions, <= 2 parties x <= 2 bits, <= 2 outputs, max_reg_count 1..5; every register / party / input index a full-range u32'),
            dict(name='c16_register_reads_defined_2', fn='register_circuit::Circuit::validate', max_items=2, label='bounded',
                 bound='<= 2 instructions, <= 2 parties x <= 2 bits, <= 2 outputs, max_reg_count 1..5; every register / party / input index a full-range u32'),
        ],
        witness=['c16', '--depth', '1', '--random', '300000'],
        witness_thorough=['c16', '--depth', '2', '--random', '30000000'],
        level='proof',
        technique='Verus contracts on the real register_circuit::Circuit::validate / eval (and the Index<Reg> / IndexMut<Reg> impls they use): validate()==Ok '
                  'implies the well-definedness predicate, which is the precondition under which every index operation of eval is proved in bounds; '
                  'the same on the real circuit::Circuit::validate / eval / wires_len (SSA), with the impl-Iterator returned by Circuit::wires() under a '
                  'trusted contract (R24); eval additionally proved to return the value of each output wire; exhaustive small-scope enumeration '
                  'on the real code as a cross-check',
        claim='Register circuits - deductive proof (Verus/Z3), for every circuit value however obtained (all sizes, all register / party / input indices): '
              'validate() returns Ok only if every instruction writes a register below max_reg_count, reads only registers below max_reg_count that an '
              'earlier instruction has written, every input instruction names an existing bit of an existing party, there is an output, and every '
              'output register exists and has been written (valid_spec); under valid_spec and inputs of the declared shape, eval never indexes out '
              'of bounds, never reaches one of its panics, and returns exactly one bit per output (Verus proves the precondition of every index '
              'operation, including the user-defined Index<Reg> / IndexMut<Reg> impls, extracted too); validate itself does not panic. '
              'SSA circuits - deductive proof (Verus/Z3, unit ssacirc) for every circuit whose declared size fits the machine word twice '
              '(2 * sum(input_gates) + |gates| <= usize::MAX; validate() itself adds wires_len() and the input sum, and no inputs of a larger declared '
              'shape exist in memory): validate() returns Ok only if every gate reads earlier wires only, there is an output and every output is a '
              'wire (valid_spec), and conversely returns Ok on every such circuit with a party and 2 * inputs + gates <= MAX_GATES (completeness); wires_len() is the number of wires; under valid_spec and inputs of the declared shape eval never indexes out of '
              'bounds, never unwraps an undefined wire (Verus proves the precondition of every Option::unwrap), never reaches one of its panics, '
              'returns one bit per output, and output k is the value of wire output_gates[k] under the gate semantics (ssa_val). ASSUMED for this: '
              'the contract of Circuit::wires() (sum(input_gates) input wires, then the gates in order). Additionally (bounded, kept as a cross-check '
              'of the register proof): Kani/CBMC proves for every register circuit with <= 2 instructions, <= 2 parties x '
              '<= 2 bits, <= 2 outputs and full-range u32 register/party/input indices that validate()==Ok implies (a) eval on inputs of the '
              'declared shape does not panic and returns one bit per output, (b) the executable well-definedness predicate valid_spec_reg '
              '(every read register exists and was written, every input instruction names an existing bit, outputs written). SSA circuits: CBMC '
              'runs out of memory on the impl-Iterator chains of Circuit::validate (measured), so the stand-in is an exhaustive concrete '
              'enumeration (all SSA and register circuits with <= 1 (quick) / <= 2 (thorough) gates over 10 party shapes incl. empty first, middle and last parties, '
              'indices incl. out-of-range) plus random deeper circuits: every accepted circuit is evaluated on every input and compared with a '
              'reference interpreter that refuses undefined reads.',
        note='Trusted (Verus part): derived PartialEq / PartialOrd of Reg(u32) compare the field (external_body impls); Iterator::all for `== 0` modelled by a '
             'verified helper (R15); map + collect written as the loop it denotes (R16); `as u32` truncation is not above the original value (proved by '
             'bit_vector); vstd Vec / slice / iterator specs; rules R0, R1, R3, R15-R18. Unit ssacirc: contract of wires_of (the collected Circuit::wires() iterator, R24) ASSUMED; '
             'Iterator::sum as a verified loop with a no-overflow precondition (R25); the shadowing vector of slice iterators in eval dropped (R26); `+= p` with p a reference '
             'dereferenced (R27); Gate and Wire given derive(Clone, Copy) in the verified text (the index loop replacing the iterator copies wires out of the vector). Trusted (bounded part): Kani/CBMC (Rust->GOTO translation, no termination checking), the reference interpreters and valid_spec_reg in '
             'kani/src/decode.rs. validate() panicking by itself (max_reg_count == 0 with instructions) is outside the statement and excluded by '
             'an explicit assume in the harness. "Validation accepts every compiler / conversion output" is checked under C10 (conversion) only.',
        title='a validated register or SSA circuit can be evaluated safely (proved for all circuits; SSA modulo the assumed contract of Circuit::wires())',
        unverified=['Circuit::wires() (impl Iterator chain of flat_map / map / chain closures): contract assumed, cross-checked by the enumeration only',
                    'SSA circuits with 2 * sum(input_gates) + |gates| > usize::MAX (validate overflows: panics under overflow checks)',
                    '"validation accepts every compiler / conversion output": follows from contracts proved elsewhere - CircuitBuilder::build returns a circuit satisfying ssa_valid when there is an input bit (unit prune, C04), '
                    'the conversion returns a circuit satisfying accepts_spec (unit convert, C10), and both validate functions are proved complete for these predicates - up to the size limit MAX_GATES and the composition over compile',
                    'Evaluator::run pre-checks of party count and bit counts'],
    ),
    'C03': dict(
        units=['arith', 'divide', 'ops', 'mult'],
        deps=[('builder', 'C04'), ('panic', 'C02')],
        kani=[dict(name=n, fn='compile::extend_to_bits', label='complete-for-this-width-pair', thorough_only=t,
                   bound='symbolic wire values and signedness, widening ' + n.split('_', 2)[2].replace('_', ' -> ') + ' bits, loops fully unrolled')
              for n, t in [('c03_extend_8_32', False), ('c03_extend_1_8', False), ('c03_extend_8_16', True), ('c03_extend_8_64', True),
                           ('c03_extend_16_32', True), ('c03_extend_16_64', True), ('c03_extend_32_64', True),
                           ('c03_extend_1_16', True), ('c03_extend_1_32', True), ('c03_extend_1_64', True)]],
        witness=['c03', '--random', '3000'],
        witness_thorough=['c03', '--exhaustive8', '--random', '200000', '--consts', '12'],
        level='proof',
        technique='Verus contracts on the real word-level circuits (adder, negation, subtraction, comparators, equality) against '
                  'mathematical integers for every width, and on the operator arms of TypedExpr::compile lifted as functions (R5)',
        claim='Unbounded deductive proof (Verus/Z3), for every bit width, builder state and input assignment, on the real code: '
              'push_addition_circuit (sum + carry*2^n == x + y, carry into the MSB), push_negation_circuit (two\'s complement), '
              'push_subtraction_circuit (overflow wire true iff x - y is not representable, exact otherwise; signed and unsigned), '
              'push_comparator_circuit / push_gt_circuit / push_eq_circuit (exact signed/unsigned order and equality), and the lifted '
              'compile arms: unary minus, + and - (an Overflow panic is recorded iff the exact result is not representable, the result is '
              'exact otherwise); !, &, |, ^ (bit k of the result is the operation on bit k of the operands, no panic); <, > (exact signed / '
              'unsigned comparison), ==, != (bit-for-bit agreement); << and >> (Overflow panic iff the amount is not below the width of x; '
              'result bit i is bit i of x moved by the amount, zeros shifted in, the sign bit for >> of a signed x); the restoring divider '
              'push_unsigned_division_circuit (for y != 0: quotient == x / y and remainder == x % y) and push_signed_division_circuit (quotient '
              '|x| / |y| negated when the signs differ, remainder |x| % |y| with the sign of x) and the arms of / and % (Division-By-Zero panic '
              'iff y == 0, first failure wins; for / an Overflow panic iff the truncated quotient is not representable, i.e. MIN / -1; otherwise '
              'the result is the quotient truncated toward zero resp. the remainder with the sign of the dividend); the arm of * (array '
              'multiplier with sign handling, unit mult: row invariant (low c bits of x) * y == (addend of the next row) * 2^c + (product bits '
              'produced so far); an Overflow panic iff the exact signed / unsigned product is not representable, exact otherwise); the Cast arm '
              '(narrowing keeps the value modulo 2^m, widening keeps the signed / unsigned value of the source; extend_to_bits by its contract, '
              'which the Kani harnesses prove for every width pair of the language). '
              'The constant-multiplication rewrite and the composition inside compile (operand evaluation, width extension, dispatch) are '
              'NOT proved: they are covered by a bounded differential check through compile + eval against exact arithmetic (quick: '
              'boundary-directed and random operands for all widths, all 16 binary operators, both unary operators, all casts, var/const '
              'operand modes; thorough: additionally all 2^16 operand pairs of u8/i8 per operator and all source values of 8/16-bit casts).',
        note='Trusted: builder-core and panic-record contracts (proved in units builder / panic, which this check runs too); vstd '
             '(Vec, slices, pow2 lemmas, ghost iterators of ranges / reversed ranges / slices); Vec::split_off via vstd; derived PartialEq of the field-less enum Op is structural equality (admit); <[T]>::to_vec specification (assume_specification); rules R0-R3, R5, R5c, R7-R9, R12-R14; a lone `;` inserted after a unit-typed tail '
             'expression where a proof block must follow. The operand types of an arm are abstract (only signedness is used).',
        title='integer operators bit-exact at every width: adder / negation / subtraction / comparators / equality circuits and the arms of '
              '-x, !x, +, -, *, /, %, &, |, ^, <, >, ==, !=, <<, >> and casts proved; the constant-multiplication rewrite by bounded differential check',
        unverified=['the constant-multiplication rewrite (x * c => x + .. + x, builds new AST nodes and recurses into compile; known finding C03-F1): bounded differential only',
                    'extend_to_bits itself for width pairs other than those of the language (Kani proves 1->8/16/32/64, 8->16/32/64, 16->32/64, 32->64; trusted contract in Verus)',
                    'operand width extension and the dispatch inside the big Op arm of compile; <= and >= are desugared by the parser into (x < y) | (x == y) resp. (x > y) | (x == y)'],
    ),
    'C13': dict(
        units=['arith'],
        deps=[('builder', 'C04'), ('branches', 'C02')],
        witness=[['c13', '--max', '4', '--per', '40'], ['c02', '--random', '0', '--programs', '250', '--join-only']],
        witness_thorough=[['c13', '--max', '8', '--per', '3000'], ['c02', '--random', '0', '--programs', '20000', '--join-only']],
        level='proof',
        technique='Verus contracts on the real compare-exchange layer (push_gt_circuit, push_condswap, push_eq_circuit, push_sorter), on the per-entry closure of the join built-in and on the pair guard of compile_bitonic_merge (lifted)',
        claim='Unbounded deductive proof (Verus/Z3) of the compare-exchange layer used by join: push_gt_circuit returns exactly the unsigned '
              'comparison of the first `bits` wires for every width; push_condswap swaps exactly when the selector is true; '
              'push_eq_circuit is exact equality; push_sorter is a whole-element compare-exchange on the first `bits` wires; the per-entry closure of the '
              'join built-in forces every wire but the flag to zero where the pair is not joined (unflagged entries are all zero); the guard computed for '
              'every pair of adjacent rows of the merged list (one iteration of the window loop of compile_bitonic_merge, lifted up to the callback): the pair '
              'is joined exactly when the keys agree bit for bit AND the tag bits differ (one row from each array - each common key once, never two rows of '
              'the same array); the per-pair closure of the for-join loop (unit branches, run as a dependency; clauses tagged C02) leaves the panic record '
              'untouched where the pair is not joined, so the loop body panics only for joined pairs; the rows handed to the merger (one iteration of each row-building loop, lifted): an element becomes its own wires, zero '
              'padding up to max_elem_bits and the tag wire (0 for the first array, 1 for the second) inserted right after the key. The bitonic network '
              'topology (push_bitonic_merger / push_bitonic_sorter) and compile_bitonic_merge (padding, tag bit, duplicate guard) are NOT under '
              'contract: a bounded differential through compile + eval runs for-join loops and the join built-in for every size pair up to (4,4) '
              '(thorough (8,8)) on sorted key arrays (random keys incl. 0 and 255, identical and disjoint sets, one key repeated within one array) '
              'against a reference merge join (body once per common key with the matching payloads; flagged entries exactly the common keys, zero '
              'elsewhere, flags sorted); and source programs that start with a for-join loop whose body can fail (division, overflow, shift) are '
              'compared with a reference interpreter on 30 inputs each (a panic exactly when the body fails for a JOINED pair).',
        note='Trusted: as C04; MergeMode (a dyn callback) is an opaque stand-in in the lifted window iteration (R5e: the statements from the callback on are dropped). <[T]>::to_vec returns the slice contents (assume_specification). Unverified: network topology, the order of the rows (first array ascending, second descending).',
        title='join: compare-exchange layer (gt / condswap / eq) exact for every width; network topology unverified',
        unverified=['push_bitonic_merger, push_bitonic_sorter (network topology)', 'compile_bitonic_merge: the order of the rows of the merged list, the empty rows; JoinLoop lowering as a whole: bounded differential only'],
    ),
    'C17': dict(
        units=['typing'],
        deps=[],
        witness=['c17', '--max', '2500'],
        witness_thorough=['c17'],
        level='proof',
        technique='Verus contracts on the real type-agreement and type-shape deciders (unify, check_type, check_or_constrain_unsigned/_signed, expect_num_type / _signed_num_type / _bool_or_num_type / _tuple_type) over the real AST type definitions; bounded catalogue of rule violations on the real checker',
        claim='Deductive proof (Verus/Z3), over all types and expressions (the real AST datatypes, extracted each run), of the single place where '
              'type agreement is decided: unify accepts two operands only if their types are equal or one is an unspecified integer-literal type '
              'that may become the other, and then both carry the agreed type, every other pair is an error with at least one message; '
              'check_or_constrain_unsigned/_signed accept exactly the expected type or a fitting unspecified literal (value bounds of every integer '
              'type checked); check_type accepts only an expression whose type equals the expected one; the expect_* shape deciders accept exactly '
              'number / signed number / Boolean-or-number / tuple / array types. Ten typing RULES - arms of the real UntypedExpr::type_check, lifted (R5f), the recursive '
              'type_check of the operands being an opaque function (induction hypothesis) - are proved to accept an expression only if its operands are well-typed and: cast - operand and '
              'target are bool or number types; unary minus - a signed number; `!` - a bool or number; element access - an array type and a usize index (or a fitting '
              'unsuffixed literal); + - * / % - operand types that agree on a number type, which is the result type; & | ^ - agreeing bool or number types; < > - agreeing '
              'number types, result bool; == != - agreeing types, result bool; << >> - a number and a u8 amount, result the left type; if / else - the typed condition is a bool and the branch types agree on the type of the expression. That the remaining constructs of type_check consult '
              'these deciders, scoping, mutability, recursion / unused-function checks and pattern refutability are NOT under contract: as the labelled '
              'bounded stand-in, a catalogue of 123 static-rule violations (every rule named in the statement, several shapes each: operand / argument / '
              'return / branch / annotation / assignment type mismatches for every pair of 17 types, non-Boolean conditions, unknown and out-of-scope '
              'identifiers / fields / variants / functions, assignment to non-mut bindings / parameters / arrays / loop variables, too few and too many '
              'arguments / fields, refutable patterns in let and for, direct / mutual / 3-cycle recursion, unused private functions, public functions '
              'without parameters) is instantiated as (well-typed, ill-typed) program pairs differing only in the violation; the well-typed twin must be '
              'accepted (else the pair is not counted) and the ill-typed one must be rejected with a type error (quick: 2500 pairs covering every rule, '
              'thorough: all 7535).',
        note='Trusted: (A5) derived PartialEq on the AST types is structural equality and Clone returns an equal value (admit / external_body stub: '
             'derive(Clone) on the recursive enum is replaced); constrain_type is external_body (only "an error carries a message" is assumed); '
             'vstd; extraction drops derive lists other than Clone/Copy/PartialEq/Eq/Hash/Debug and serde attributes.',
        title='type agreement deciders: mismatching operand / expected types are rejected with an error, for all types and expressions (proved); '
              'catalogue of static-rule violations rejected (bounded)',
        unverified=['UntypedExpr/Stmt/Pattern::type_check (that every rule consults the deciders): bounded catalogue only', 'Env scoping and mutability checks: bounded catalogue only',
                    'recursion detection, unused-function and pub-without-params checks: bounded catalogue only', 'refutability of let / for patterns: bounded catalogue only', 'constrain_type body'],
    ),
    'C09': dict(
        units=['literal', 'decode'],
        deps=[('typing', 'C17')],
        kani=[
            dict(name='c09_signed_to_bits_layout', fn='compile::signed_to_bits', label='complete-over-i64-x-sizes',
                 bound='all i64 values x all sizes 0..=64; loops fully unrolled (unwinding assertions on)'),
            dict(name='c09_unsigned_to_bits_layout_and_roundtrip', fn='compile::{unsigned_to_bits, wires_as_unsigned}', label='complete-over-u64-x-sizes',
                 bound='all u64 values x all sizes 0..=64; loops fully unrolled (unwinding assertions on)'),
        ],
        witness=['c09', '--values', '60'],
        witness_thorough=['c09', '--values', '100000'],
        level='proof',
        technique='Kani harnesses on the real integer encoders/decoders (complete over all 64-bit values and sizes); Verus contracts on the aggregate arms of '
                  'Literal::as_bits (lifted, structural induction with the recursive call opaque); bounded differential check of the literal API against a '
                  'reference value model',
        claim='Integer layer PROVED complete-over-domain by Kani/CBMC on the real functions: unsigned_to_bits / signed_to_bits append exactly `size` bits, '
              'bit i being bit size-1-i of the value (big-endian two\'s complement), for every 64-bit value and every size 0..=64, and '
              'wires_as_unsigned decodes them back whenever the value fits. Aggregate layout PROVED (Verus/Z3, structural induction per arm of the real '
              'Literal::as_bits, the recursive call being an opaque function returning the encoding of the part): an array literal, a tuple and a struct '
              'encode to the concatenation of the encodings of their elements / fields in order, [e; n] to n copies of the encoding of e; an enum literal '
              'encodes to exactly enum_max_size bits: the tag number big-endian in the first enum_tag_size bits, then the encodings of the variant fields '
              'in order, then zeros (given, as precondition, that the payload fits - enum_max_size is the maximum over the variants - and that '
              'enum_tag_size / enum_max_size / enum_tag_number, which are not under contract, return the tag width, total size and tag number). '
              'Decoding, aggregate arms PROVED (unit decode: the Array and Tuple arms of the real Literal::from_unwrapped_bits, lifted; the recursive call is an opaque function returning the uninterpreted decoding): element k of an array is decoded from the k-th slice of the size of the element type, field k of a tuple from the slice that starts where the fields before it end and has the size of its type, in order; an error is the error of one of them (precondition: the bit vector has the size of the type - the function does not check it). '
              'The other decoders (struct, enum, const-sized arrays, the integer arms), Literal::parse / Display, is_of_type and from_result_bits are NOT under contract (recursion over Literal with HashMap<String,_> lookups, closures, formatter): a '
              'bounded differential check through compile / literal_arg / parse_arg / as_bits / eval / parse_output compares 19 types x random and '
              'boundary values with a reference model of the documented layout (size, exact bits, print-parse round trip, identity program) and 21 '
              'hostile literals (out-of-range numbers, permuted / duplicated / missing struct fields, wrong enum arity, inverted or oversized ranges) '
              'which must be refused or encode canonically, never panic.',
        note='Trusted: Kani/CBMC; Verus/Z3, vstd; Vec::extend with a vector argument modelled by a verified helper (R22), a range copy_from_slice by the loop it denotes (R23); '
             'the reference encoder in replay/src/c09.rs. Bounded part is labelled bounded and not counted as proved.',
        title='literal encoding: integer encoders/decoders proved for all values and sizes (Kani), aggregate concatenation and enum layout proved (Verus); decoding, parsing, validation by bounded differential',
        unverified=['Literal::as_bits range arm; enum_tag_size / enum_max_size / enum_tag_number; from_unwrapped_bits (struct, enum, const-sized array and integer arms) / from_result_bits', 'Literal::parse, Display', 'Literal::is_of_type',
                    'Evaluator::set_* / TryFrom<EvalOutput>'],
    ),
    'C14': dict(
        units=['env', 'envmerge', 'assign'],
        deps=[('builder', 'C04')],
        witness=['c14', '--programs', '1200'],
        witness_thorough=['c14', '--programs', '150000'],
        level='proof',
        technique='Verus contracts on the real lexical environment (src/env.rs: Env::new / get / let_in_current_scope / assign_mut / push / pop against an '
                  'abstract view, a sequence of finite maps) and on the per-variable merge of CircuitBuilder::mux_envs (lifted); bounded differential of '
                  'whole programs against a reference interpreter on the real compiler',
        claim='Deductive proof (Verus/Z3) on the real code, for every environment, name and value. (1) src/env.rs, every operation against the WHOLE '
              'abstract view (one finite map per scope, outermost first): new is one empty scope; push adds an empty innermost scope and pop drops exactly '
              'the innermost one, leaving every other scope as it was; let_in_current_scope changes the innermost scope only, at the bound name only; '
              'assign_mut changes the innermost scope that declares the name, at that name only, and no other scope; get returns (a clone of) the binding '
              'of the innermost declaring scope, None if none declares the name. Consequences proved as lemmas over these contracts: after an assignment '
              'the assigned variable denotes the new value and every other variable denotes what it did before; after push; let x; assignments to x; pop '
              'every variable denotes what it denoted before the scope was entered (a shadowing binding ends with its scope, and assignments inside go to '
              'the inner binding). (2) CircuitBuilder::mux_envs, the merge of ONE variable (lifted inner block; push_mux by its contract from unit builder): '
              'every wire of the merged binding carries, for every input, the value of the binding of the path actually taken, and a variable that both '
              'paths left on the same wires keeps them. (3) where an assignment through an accessor lands (VarAssign arm of TypedStmt::compile, the lifted offset computations of the struct-field and tuple-field branches): the fields / components BEFORE the assigned one, one after the other, occupy the wires before it, and exactly the wires of the named field are selected for the read-modify-write (the size of a type is an uninterpreted function of the type). NOT under contract: the walk of mux_envs over scopes and names (BTreeMap iteration), and the arms '
              'of compile that USE the environment - VarAssign through nested accessors, the per-path clones of If / Match / JoinLoop / && / ||, the scopes of '
              'Block / FnCall / ForEachLoop; as the labelled bounded stand-in, random programs (let / let mut with shadowing, assignment and op-assignment '
              'through constant and input-dependent array / tuple / struct (three fields) accessors, nested ones through a three-element array of tuples and a nested array, whole-value copies, right-hand sides with side effects (also under a constant factor), nested blocks, if / else with side effects in '
              'conditions and short-circuit operands, match, for loops, calls of helpers whose parameters carry the names of the caller\'s variables and '
              'that use a constant which the caller shadows) are compiled and compared, on 12 inputs each, with a reference interpreter (lexical scopes, '
              'values copied on assignment and call): all variables of main are compared at the end.',
        note='Trusted: vstd\'s specification of BTreeMap (new, insert, get, contains_key) and Vec (push, pop, last_mut, index_mut); the model of std for '
             'String keys, stated once in the template: String\'s Ord is a total order consistent with == (key_obeys_cmp_spec, borrowed_key_ordering_matches) '
             'and looking a BTreeMap<String, V> up with a &str finds the entry of the String with the same characters (two admitted axioms; std\'s Borrow '
             'contract); T::clone through vstd\'s `cloned`; the BTreeMap entry API is rewritten to contains_key + insert (R42: Entry::Occupied means the key '
             'is present, OccupiedEntry::insert sets its value); reversed iteration over the scopes is rewritten to a descending index loop (R41); the '
             'impl bound `T: Debug` is dropped (used by no extracted function); assign_mut\'s panic for an undeclared name is proved unreachable under the '
             'precondition "some scope declares the name" (a caller obligation, established by the type checker); builder-core contracts (push_mux) proved '
             'in unit builder, which this check runs too; rules R0, R3, R5d, R5e. Oracle of the bounded part: the interpreter in replay/src/c14.rs.',
        title='lexical environment: every operation of Env changes exactly the scope and name it should (proved, whole view); merge of a variable is the '
              'value of the path taken (proved); scoping, copying and merging in whole programs by bounded differential against a reference interpreter',
        unverified=['CircuitBuilder::mux_envs outer loops (BTreeMap iteration over scopes and names; its check `a.len() != a.len()` never fires)',
                    'TypedStmt::compile VarAssign (read-modify-write through nested accessors), LetMut / Let pattern bindings',
                    'the per-path clones and merges of If / Match / JoinLoop / && / ||, the scopes of Block / FnCall / ForEachLoop (compile.rs)',
                    'the type checker\'s own use of Env (check.rs)'],
    ),
    'C11': dict(
        units=['bristol'],
        deps=[],
        witness=['c11', '--circuits', '1200'],
        witness_thorough=['c11', '--circuits', '60000', '--mutations', '120'],
        level='proof',
        technique='Verus contract on the wire renumbering of Circuit::format_as_bristol (the statements that build wires_map, lifted from between the '
                  'file-writing parts); bounded differential of export / independent reader / import on the real functions, and malformed-file import',
        claim='Deductive proof (Verus/Z3), for every wire count, input count and output list without repetitions whose wires are non-input wires of '
              'the circuit, of the renumbering that format_as_bristol applies to every wire it writes: input wires keep their numbers; output j of the '
              'list becomes wire (number of wires - number of outputs + j), i.e. the outputs are the LAST wires in the order of the output list; '
              'every other wire moves down by the number of outputs before it, stays below the outputs and keeps its relative order; no two wires get '
              'the same number (with a pigeonhole lemma: distinct output wires below the wire count are counted once each). NOT under contract - file '
              'I/O, formatting and parsing have no specification in Verus and the two functions interleave them with the logic: the de-aliasing of '
              'repeated outputs (HashSet + Option::get_or_insert_with + clone of the circuit), the header counts, the gate lines, and the whole importer. '
              'As the labelled bounded stand-in on the real functions: random SSA circuits (1-3 parties, up to 6 input bits, up to 14 gates, 161 arbitrary '
              'panic outputs, 1-5 outputs with repetitions and outputs that feed later gates) and compiled programs are exported; the text is read by an '
              'independent reader that checks well-formedness (declared gate and wire counts, every non-input wire assigned exactly once and before '
              'use, outputs = the last wires) and evaluates it; the file is imported again; circuit, text and re-imported circuit are compared on '
              'EVERY input assignment; an output that is an input wire must be refused; token / line mutations of valid exports (hostile numbers, '
              'deleted / duplicated / swapped tokens and lines, truncation, random token lines, absurd but mutually consistent sizes) must be imported '
              'to a circuit or an error, never a panic.',
        note='Trusted: collecting (value, index) pairs into a HashMap maps every element to the last index at which it occurs (R44, external_body '
             'helper); vstd (Vec, HashMap::get for usize keys); that the caller establishes the precondition (outputs de-aliased and not input wires) is '
             'checked only by the bounded part; `.iter_mut().take(N).enumerate()` / `.enumerate().skip(N)` are rewritten to index loops (R30, R30b); '
             'rules R1, R5d, R5e. Oracle of the bounded part: the reader / evaluator in replay/src/c11.rs. Large but allocatable declared sizes '
             '(gigabytes) are a resource question outside the property and are not generated.',
        title='Bristol export: the wire renumbering puts the outputs last in order, keeps inputs and the order of the other wires, and is injective '
              '(proved); export / import round trip, well-formedness of the text and panic-freedom of the importer by bounded differential',
        unverified=['Circuit::format_as_bristol outside the renumbering: de-aliasing of repeated outputs, header, gate lines (file I/O)',
                    'Circuit::bristol_to_garble, parse_line (str parsing, file I/O)', 'compile_to_bristol / compile_bristol_to_circuit wrappers'],
    ),
    'C12': dict(
        units=['consts'],
        deps=[],
        witness=['c12', '--random', '1500'],
        witness_thorough=['c12', '--random', '1000000'],
        level='proof',
        technique='Verus contracts on the arithmetic arms of resolve_const_expr_{usize,unsigned,signed} (macro instantiated by R6, arms lifted by R5) against a recursive spec function',
        claim='Deductive proof (Verus/Z3), for every expression tree and every constant assignment, that each arithmetic arm of the three instances of '
              'the real const-expression evaluator returns the value of the spec function ceval: a literal (also one with a signed suffix, in the signed instance) is its value, max / min are the maximum / '
              'minimum of the arguments, + and - wrap in the constant\'s type; the recursive calls are assumed by the same contract (structural '
              'induction). The two lookup arms (format! + HashMap<String,_>) are trusted; substitution equivalence of whole programs, array sizes / '
              'loop counts / party numbers following the constants and the reporting of missing or mistyped constants (compile_with_constants) are '
              'NOT under contract; a bounded differential through compile_with_constants + eval compares random constant expressions (incl. literals of the constant\'s type and a constant K0 defined before and used in the expression) over 9 integer '
              'types with substitution semantics, programs whose array sizes / loop trip counts / party counts are constant expressions over '
              'external usize values with the literal-substituted program (shape and outputs), and checks missing / mistyped / extra constants '
              '(error, never a panic).',
        note='Trusted: lookup arms (uninterpreted); std::cmp::max / min specification (assume_specification); vstd. Rules R5, R6, R7.',
        title='const expressions: literal / min / max / wrapping + and - arms equal the spec evaluation, for all trees and assignments (3 instances)',
        unverified=['ExternalValue / ConstExprIdent lookup arms', 'compile_with_constants (const_deps, const_sizes, error reporting)',
                    'const definition checking in check.rs', 'truncation of the 64-bit result to the declared width (unsigned_to_bits, see C09)'],
    ),
    'C10': dict(
        units=['regalloc', 'convert', 'regcirc', 'ssacirc'],
        deps=[],
        witness=['c10', '--depth', '2', '--random', '100000'],
        witness_thorough=['c10', '--depth', '3', '--random', '20000000'],
        level='proof',
        technique='Verus contracts on the real conversion code: last_use_map, RegisterAllocator::new, convert_circuit (simulation invariant over the '
                  'conversion loop, for every input assignment) and find_out_reg (allocator invariant), against spec functions for the value of an SSA wire '
                  '(ssa_val) and of a register after n instructions (rv); the same spec functions are the postconditions of the real SSA and register eval, '
                  'and the register validate is proved complete for what the conversion produces; bounded differential check of the whole conversion on the '
                  'real code as a cross-check',
        claim='Deductive proof (Verus/Z3), for every SSA circuit satisfying what Circuit::validate establishes (every gate reads earlier wires, an output, '
              'outputs are wires, 2 * inputs + gates <= MAX_GATES) with at most u32::MAX parties: RegisterAllocator::new followed by convert_circuit returns a '
              'register circuit r such that (1) r satisfies accepts_spec, and register Circuit::validate returns Ok on every circuit satisfying accepts_spec '
              '(proved on the real validate, unit regcirc) - r passes its own validation; (2) the first sum(input_gates) instructions load the inputs party '
              'by party and bit by bit into registers 0, 1, 2, ..; (3) for every input assignment of the declared shape and every k, the value of output '
              'register k after the last instruction (rv) equals the value of SSA output wire k (ssa_val); the real register eval returns exactly rv and the '
              'real SSA eval returns exactly ssa_val (units regcirc, ssacirc), so both evaluations return the same bits; (4) every register read was written '
              'before (part of accepts_spec), every HashMap lookup of the conversion finds its key (a wire still needed is never released: last_use_map '
              'returns a table that is not before any use of a wire and pins the outputs, proved) and the unreachable! is unreachable; (5) max_reg_count <= '
              'number of wires; (6) and_ops equals the number of AND gates. find_out_reg (unit regalloc): for every allocator state satisfying the invariant '
              '(live wires in pairwise different registers, free list duplicate-free and disjoint from live registers, all registers below next_reg) it '
              're-establishes the invariant, returns a register that no live wire occupies and that is not on the free list, allocates at most one new '
              'register, unmaps exactly the operands that die at this gate and leaves every other mapping unchanged. ASSUMED: the contract of '
              'Circuit::wires() (sum(input_gates) input wires, then the gates in order). The three From impls (new + convert_circuit, 2 lines each) and '
              'the composition with validate()/eval() calls are not under contract; the end-to-end statement is additionally checked by a bounded '
              'differential (every valid SSA circuit with <= 2 (quick) / 3 (thorough) gates over 5 party shapes and all single/double outputs, random '
              'circuits up to 13 gates with repeated operands and input/repeated outputs, compiled programs with de-duplication on and off).',
        note='Trusted: vstd HashMap/Vec specifications; Circuit::wires() by contract (R24); `mut self` rewritten to a local (R28); HashMap indexing written as '
             'get(..).unwrap() (R29); map + collect as the loop it denotes (R21b); the for loop with `continue` as a while loop (R24); Gate / Wire given '
             'derive(Clone, Copy) in the verified text. SSA circuits with more than u32::MAX parties are outside the contract (`party as u32` would truncate; '
             'such a circuit needs > 32 GB for input_gates alone). Bounded part labelled bounded.',
        title='register conversion: equivalent for every input, passes its validation, loads inputs in order, register and AND counts (proved for all valid SSA circuits, modulo the assumed contract of Circuit::wires())',
        unverified=['Circuit::wires() (contract assumed)', 'impl From<SsaCircuit / &SsaCircuit / &mut SsaCircuit> for Circuit (two-line wrappers: new + convert_circuit)',
                    'SSA circuits with more than u32::MAX parties'],
    ),
    'C08': dict(
        units=['patterns', 'typing', 'patlower', 'branches'],
        deps=[('builder', 'C04'), ('arith', 'C03'), ('panic', 'C02')],
        witness=['c08', '--random', '4000'],
        witness_thorough=['c08', '--random', '3000000'],
        level='proof',
        technique='Verus contracts on the real integer layer of pattern matching: bound check of pattern typing (expect_pattern_in_range), constructor '
                  'splitting (split_unsigned_range, split_signed_range), the integer arms of specialize and the integer arms of TypedPattern::compile '
                  '(lifted by R5); bounded differential check of whole matches on the real code',
        claim='Deductive proof (Verus/Z3) on the real code, for every arm list, integer type, width, builder state and input assignment, of the integer layer '
              'where the boundary arithmetic of the property lives. (1) pattern typing: expect_pattern_in_range accepts a literal / range pattern exactly when '
              'both bounds are values of the matched type, and the four integer arms of the real UntypedPattern::type_check (lifted, R5f) accept a literal / range pattern only for a number type (a signed one for signed patterns) whose value range contains the bounds, and return the pattern unchanged. (2) exhaustiveness: split_unsigned_range / split_signed_range return constructors that cover every '
              'value of [min, max], each non-empty and homogeneous (no arm head - literal, inclusive range, exclusive range stored as end-1, binding, signed '
              'or unsigned - distinguishes two values of one constructor); the integer arms of specialize keep an arm exactly when its head matches every '
              'value of the constructor; hence (lemma) for every returned constructor and each of its values v, specialize keeps exactly the arms whose head '
              'matches v; the integer arms of split_ctor split a variable / wildcard query over the WHOLE value range of the scrutinee type (the real '
              'UnsignedNumType::max and SignedNumType::min / max are proved to return the bounds of the type) and a literal / range query over its own values. (3) lowering: the NumUnsigned / NumSigned arms of TypedPattern::compile return a wire that is true exactly when the scrutinee value '
              'equals the literal, the Unsigned- / SignedInclusiveRange arms exactly when min <= value <= max (signed or unsigned comparison as the type '
              'demands); the Tuple arm (structural induction: the field patterns are lowered by opaque recursive calls whose contract is the induction '
              'hypothesis) returns a wire that is true exactly when every field pattern matches its slice of the value, field k occupying the wires '
              'from the sum of the sizes of the fields before it; the tag comparison of the EnumUnit / EnumTuple arm (lifted between the computation of the '
              'expected tag wires and the field patterns) is true exactly when the first tag_size wires carry the variant number. (4) first match: the Match arm of TypedExpr::compile (unit branches; clause patterns and bodies compiled by opaque recursive '
              'calls) returns, for every input, the result wires of the first clause whose match wire is true. (5) structured constructors: the True / False, '
              'Tuple, Struct, Variant and Array arms of specialize are contracted structurally - a variable head becomes one wildcard per field type, a '
              'pattern of the same constructor (same variant name) is replaced by its sub-patterns, in both cases followed by the rest of the '
              'row, every other head drops the row; a struct pattern (fields in any order, with or without `..`) contributes one column per field of the struct in '
              'definition order - its pattern for that field, a wildcard where it has none. (6) reported missing cases: the loop body of usefulness that puts a constructor back around a witness row '
              '(lifted) wraps exactly the columns of the constructor\'s own fields - none for a literal, range, unit variant or array - and keeps every other column of the row in order. NOT under contract: the usefulness recursion (usefulness, split_ctor) that composes these steps, the '
              'lowering of struct / enum patterns, parsing: as the labelled bounded stand-in, random and directed arm lists over 14 '
              'scrutinee types (incl. bounds outside the type, empty and inverted ranges, struct patterns with a repeated field, a specific component followed by a catch-all that is restricted elsewhere) are decided on the real checker and compared with brute-force '
              'enumeration (accepted exactly when every value is matched; every accepted match compiled and evaluated against the first matching arm; for a rejected '
              'match every reported missing case must be a pattern of the scrutinee type that denotes at least one value and only values no arm matches).',
        note='Trusted: <[T]>::sort_unstable returns a sorted permutation and Vec::dedup keeps the same elements and makes a sorted vector strictly increasing '
             '(assume_specification + two admitted axioms for u128 / i128); iter_collect (R11) returns the collected tail; unsigned_as_wires / signed_as_wires '
             'return the constant wires of the low bits (external_body; bit layout of unsigned_to_bits / signed_to_bits proved by the C09 Kani harnesses); '
             'builder-core and comparator contracts (proved in units builder / arith, which this check runs too); bits == match_expr.len() <= 64 and '
             '"bounds fit the width" are preconditions of the lowering arms (established by pattern typing, whose call of expect_pattern_in_range is not '
             'under contract); the iterator chains of specialize over the opaque tail iterator collect to "the elements, then the tail" (R36, external_body helpers); '
             'Option::as_deref().unwrap_or_default() (R37); derived Clone of Type / Pattern returns an equal value; String equality through vstd (clauses stated under '
             'obeys_eq_spec); an or-pattern with a guard is split into two arms (R38); Iterator::find by field name (R39), once(..).chain(..).collect() and iter().zip(..).map(..).collect() of the witness reassembly (R40, external_body helpers); derived Clone of ConstExpr; vstd; rules R0, R5, R5c, R7, R10, R11. Oracle of the bounded part: the pattern matcher in replay/src/c08.rs.',
        title='match on integers: pattern bounds checked against the type, constructor splitting covers / is homogeneous, specialize and the lowering of '
              'literal and range patterns exact, specialization by structured constructors, first matching clause decides (proved); usefulness recursion and lowering of structured patterns by bounded differential',
        unverified=['usefulness, split_ctor (the recursion over pattern stacks that composes splitting and specialization): bounded differential only',
                    'Pattern::type_check for tuple / struct / enum patterns, range pattern parsing',
                    'struct arm and the field part of the enum arm of TypedPattern::compile (HashMap of field patterns; zip over the variant types), bindings of the selected arm (environment merge mux_envs): bounded differential only'],
    ),
}
