#!/usr/bin/env python3
"""./check <property> <quick|thorough>      decide one property on /repo's current working tree
   ./check --replay <file>                   re-execute a recorded witness on the real code

exit 0: every obligation of the property discharged (KNOWN-FINDING lines may be printed)
exit 1: VIOLATION property=<id> replay=<path> [no-failing-input-found]
exit 2: the machinery could not decide (lost anchor, unsupported construct, rlimit, tool failure)
"""
import hashlib
import json
import os
import shutil
import subprocess
import sys
import tempfile
import time
from concurrent.futures import ThreadPoolExecutor

TOOLS = os.path.dirname(os.path.abspath(__file__))
VERIF = os.path.dirname(TOOLS)
sys.path.insert(0, TOOLS)
from props import PROPS, VERUS_TRUST  # noqa: E402
import verus_unit  # noqa: E402
import kani_unit  # noqa: E402
import mutants  # noqa: E402

REPO = os.environ.get('VERIF_REPO', '/repo')
REPLAY_DIR = os.path.join(VERIF, 'replays')
EVIDENCE_DIR = os.path.join(VERIF, 'evidence')
REPLAY_BIN = os.path.join(VERIF, 'replay', 'target', 'release', 'replay')


def log(*a):
    print(*a, flush=True)


def build_replay():
    """(re)build the replay tool against /repo's current working tree"""
    env = dict(os.environ, CARGO_NET_OFFLINE='true', CARGO_TARGET_DIR=os.path.join(VERIF, 'replay', 'target'))
    lock_src = os.path.join(REPO, 'Cargo.lock')
    cmd = ['cargo', 'build', '--release', '--offline', '--quiet']
    p = subprocess.run(cmd, cwd=os.path.join(VERIF, 'replay'), env=env, stdout=subprocess.PIPE,
                       stderr=subprocess.STDOUT, text=True)
    if p.returncode != 0:
        return False, p.stdout[-3000:]
    return True, ''


def load_known():
    p = os.path.join(VERIF, 'known_findings.json')
    if not os.path.exists(p):
        return []
    return json.load(open(p)).get('findings', [])


def counts_for(pid, e):
    """does Verus error `e` count against property pid?"""
    if e['tags']:
        return any(p == pid for p, _ in e['tags'])
    return pid in e['fn_props']


def obligation_id(unit, e):
    if e['tags']:
        names = sorted({n for _, n in e['tags']})
        return f"{unit}/{e['fn']}/{'+'.join(names)}"
    clause = ''
    for s in e['spans']:
        if s['label'] and ('failed' in s['label']):
            clause = s['text']
    if not clause and e['spans']:
        clause = e['spans'][0]['text']
    h = hashlib.sha256(clause.encode()).hexdigest()[:8]
    return f"{unit}/{e['fn']}/{e['message'].split(':')[0].replace(' ', '_')}#{h}"


def retry_function(unit_res, fn_path, workdir, seeds=(7, 23)):
    """A proof found under any solver seed is a proof: re-run a failing function before calling it refuted."""
    name = fn_path.split('::')[-1]
    path = os.path.join(workdir, unit_res.name + '.rs')
    rl = unit_res.meta['unit'].get('rlimit', '100')
    for seed in seeds:
        cmd = ['verus', os.path.basename(path), '--triggers-mode', 'silent', '--rlimit', str(int(float(rl) * 2)),
               '--output-json', '--error-format=json', '--verify-root', '--verify-function', '*::' + name if '::' in fn_path else name,
               '--smt-option', f'smt.random_seed={seed}']
        p = subprocess.run(cmd, cwd=workdir, stdout=subprocess.PIPE, stderr=subprocess.PIPE, text=True)
        try:
            out = json.loads(p.stdout)
        except json.JSONDecodeError:
            continue
        vr = out.get('verification-results', {})
        if vr.get('success') and vr.get('verified', 0) >= 1:
            return True
    return False


def run_witness(args, out_path, seed, known_ids=()):
    cmd = [REPLAY_BIN, 'search'] + list(args) + ['--seed', str(seed), '--out', out_path]
    if known_ids:
        cmd += ['--known', ','.join(known_ids)]
    p = subprocess.run(cmd, stdout=subprocess.PIPE, stderr=subprocess.STDOUT, text=True)
    return p.returncode, p.stdout


def main():
    if len(sys.argv) >= 3 and sys.argv[1] == '--replay':
        ok, msg = build_replay()
        if not ok:
            log('cannot build replay tool:', msg)
            return 2
        return subprocess.run([REPLAY_BIN, 'replay', sys.argv[2]]).returncode
    if len(sys.argv) < 3 or sys.argv[1] not in PROPS or sys.argv[2] not in ('quick', 'thorough'):
        log(__doc__)
        log('properties:', ' '.join(sorted(PROPS)))
        return 2
    pid, tier = sys.argv[1], sys.argv[2]
    spec = PROPS[pid]
    seed = int(os.environ.get('VERIF_SEED', '1'))
    t0 = time.time()
    os.makedirs(REPLAY_DIR, exist_ok=True)
    os.makedirs(EVIDENCE_DIR, exist_ok=True)
    ev_path = os.path.join(EVIDENCE_DIR, pid + '.json')
    if os.path.exists(ev_path):
        os.remove(ev_path)
    workdir = tempfile.mkdtemp(prefix=f'verif_{pid}_')
    try:
        return decide(pid, tier, spec, seed, t0, workdir, ev_path)
    finally:
        shutil.rmtree(workdir, ignore_errors=True)


def decide(pid, tier, spec, seed, t0, workdir, ev_path):
    units = list(spec.get('units', []))
    dep_units = [(u, q) for (u, q) in spec.get('deps', []) if u not in units]
    all_units = units + [u for u, _ in dep_units]
    kani = spec.get('kani', [])
    known = [k for k in load_known() if k.get('property') == pid]

    results = {}
    with ThreadPoolExecutor(max_workers=8) as ex:
        futs = {u: ex.submit(verus_unit.run_unit, u, REPO, os.path.join(workdir, u), True) for u in all_units}
        fut_replay = ex.submit(build_replay)
        fut_kani = ex.submit(kani_unit.run_harnesses, kani, REPO, os.path.join(workdir, 'kani'), tier) if kani else None
        for u, f in futs.items():
            results[u] = f.result()
        replay_ok, replay_msg = fut_replay.result()
        kani_res = fut_kani.result() if fut_kani else None

    undecided, failures = [], []   # failures: dict(obligation, unit, error)
    obligations, discharged = 0, 0
    fn_rows, samples, assumptions = [], [], []
    solver_ms = 0
    for u in all_units:
        r = results[u]
        dep_prop = dict(dep_units).get(u)
        if r.status == 'error':
            undecided.append(f'unit {u}: {r.detail}')
            continue
        for (ln, txt) in r.assumptions:
            assumptions.append(f'{u}.rs:{ln}: {txt}')
        if r.reach:
            for fn, st in r.reach.items():
                if st != 'reachable':
                    undecided.append(f'unit {u}: precondition of {fn} is contradictory (reach check proved `false`)')
        # per-function rows
        failed_fns = {e['fn'] for e in r.errors}
        for vname, info in sorted(r.functions.items()):
            obligations += 1
            solver_ms += info['time_ms']
            if info['success']:
                discharged += 1
            fn_rows.append(dict(unit=u, function=vname, mode=info.get('mode'), success=info['success'],
                                smt_ms=info['time_ms'], backend='verus/z3'))
        for f in r.meta['fns']:
            samples.append(dict(unit=u, function=f['path'], source=f"{f['file']}:{f['line0']}-{f['line1']}",
                                sha256_16=f['sha256'], desugarings=f['rules'], external_body=f['external_body'],
                                properties=f['props']))
        for e in r.errors:
            relevant = counts_for(dep_prop, e) if dep_prop else counts_for(pid, e)
            if not relevant:
                continue
            if e['fn'] is None:
                undecided.append(f"unit {u}: proof-only item failed: {e['message']} {e['spans'][:1]}")
                continue
            if e['kind'] == 'undecided':
                if retry_function(r, e['fn'], os.path.join(workdir, u)):
                    log(f'note: {u}/{e["fn"]} hit the resource limit once and verified on retry')
                    discharged += 0
                    continue
                undecided.append(f"unit {u}: {e['fn']}: {e['message']}")
                continue
            failures.append(dict(obligation=obligation_id(u, e), unit=u, error=e, dep=dep_prop))
    # retry refuted functions under other seeds (solver incompleteness / instability guard)
    still = []
    retried = {}
    for f in failures:
        key = (f['unit'], f['error']['fn'])
        if key not in retried:
            retried[key] = retry_function(results[f['unit']], f['error']['fn'], os.path.join(workdir, f['unit']))
        if retried[key]:
            log(f"note: {f['obligation']} failed once and verified on retry with another solver seed")
        else:
            still.append(f)
    failures = still

    kani_rows = []
    if kani_res is not None:
        for h in kani_res:
            obligations += h['checks']
            discharged += h['checks_ok']
            kani_rows.append({k: h[k] for k in ('harness', 'status', 'checks', 'checks_ok', 'wall_s', 'bound', 'label')})
            if h['status'] == 'error':
                undecided.append(f"kani {h['harness']}: {h['detail']}")
            elif h['status'] == 'failed':
                failures.append(dict(obligation=f"kani/{h['harness']}", unit='kani', error=h, dep=None, kani=h))

    # bounded differential search on the real code (stand-in for the parts no contract reaches; also the
    # witness search for failed Verus obligations)
    wit_spec = spec.get('witness_thorough' if tier == 'thorough' else 'witness') or spec.get('witness')
    wit_list = [] if not wit_spec else (wit_spec if isinstance(wit_spec[0], list) else [wit_spec])
    witness_info = None
    witness_file = None
    if wit_list and not replay_ok:
        undecided.append('replay tool does not build against the current tree: ' + replay_msg[-800:])
    for wi, wit_args in enumerate(wit_list if replay_ok else []):
        wfile = os.path.join(REPLAY_DIR, f'{pid}.witness{wi}.txt')
        if os.path.exists(wfile):
            os.remove(wfile)
        rc, out = run_witness(wit_args, wfile, seed, [k['id'] for k in known if k.get('matcher')])
        kf = '\n'.join(l for l in out.split('\n') if l.startswith('known-finding:'))
        info = dict(cmd='replay search ' + ' '.join(wit_args), exit=rc, summary=(kf + '\n' if kf else '') + out.strip()[-600:])
        for line in out.split('\n'):
            if line.startswith('stats-json:'):
                try:
                    info['stats'] = json.loads(line[len('stats-json:'):])
                except json.JSONDecodeError:
                    pass
        if witness_info is None:
            witness_info = info
            witness_info['further'] = []
        else:
            witness_info['further'].append(info)
            witness_info['summary'] += '\n' + info['summary']
        if rc == 3:
            witness_file = wfile
            failures.append(dict(obligation=f'differential/{wit_args[0]}', unit='replay', error=dict(
                fn=None, message='bounded differential search found a failing input on the real code',
                rendered=out, tags=[], spans=[]), dep=None, witness=wfile))
        elif rc != 0:
            undecided.append(f'witness search failed to run: {out[-500:]}')

    # thorough tier: contract self-test (hand-seeded mutants on a scratch copy of /repo/src)
    kill_matrix = []
    if tier == 'thorough' and not undecided:
        for u in units:
            try:
                kill_matrix += mutants.run_unit_mutants(u, REPO)
            except Exception as e:  # the self-test must never decide the property
                log(f'WARNING: self-test of unit {u} could not run: {type(e).__name__}: {e}')
        for r in kill_matrix:
            if not r['ok']:
                log(f"WARNING: self-test: mutant {r['unit']}/{r['mutant']} expected {r['expect']}, got {r['verdict']}")

    # known findings
    violations, known_hits = [], []
    for f in failures:
        hit = None
        for k in known:
            # findings with a matcher are recognised input by input inside the replay tool (--known); only findings
            # without one are matched by obligation id
            if not k.get('matcher') and k.get('obligation') == f['obligation']:
                hit = k
        if hit:
            known_hits.append((hit, f))
        else:
            violations.append(f)

    for hit, f in known_hits:
        log(f"KNOWN-FINDING: property={pid} {hit.get('what', f['obligation'])}")
    known_ids_hit = [h.get('id') for h, _ in known_hits]
    if witness_info:
        seen_kf = set()
        for line in witness_info['summary'].split('\n'):
            if line.startswith('known-finding:') and line.strip() not in seen_kf:
                seen_kf.add(line.strip())
                kid = line.split()[1]
                for k in known:
                    if k.get('id') == kid:
                        log(f"KNOWN-FINDING: property={pid} {k.get('what')} [{line.strip()}]")
                        known_ids_hit.append(kid)

    exit_code = 0
    replay_path = None
    if violations:
        replay_path = os.path.join(REPLAY_DIR, f'{pid}.replay.txt')
        concrete = None
        for f in violations:
            if f.get('witness') and os.path.exists(f['witness']):
                concrete = f['witness']
            if f.get('kani') and f['kani'].get('replay_file'):
                concrete = f['kani']['replay_file']
        with open(replay_path, 'w') as fh:
            if concrete:
                fh.write(open(concrete).read())
                fh.write('\n')
                for f in violations:
                    kf = f.get('kani', {}).get('replay_file') if f.get('kani') else None
                    if kf and kf != concrete and os.path.exists(kf):
                        fh.write('--- further counterexample (replay separately): ' + kf + '\n')
            else:
                fh.write('kind: none\n')
            fh.write(f'property: {pid}\n')
            for f in violations:
                fh.write(f"failed_obligation: {f['obligation']}\n")
            fh.write('--- verifier output ---\n')
            for f in violations:
                e = f['error']
                if not f.get('witness'):
                    fh.write((e.get('rendered') or e.get('detail') or e.get('message') or '') + '\n')
                for s in e.get('spans', []) or []:
                    if s.get('origin') and s['origin'][0] == 'src':
                        fh.write(f"  at /repo/src/{s['origin'][1]}:{s['origin'][2]}  {s['text']}\n")
        for f in violations:
            log(f"failed obligation: {f['obligation']}")
            e = f['error']
            log('  ' + (e.get('message') or ''))
            for s in e.get('spans', []) or []:
                org = s.get('origin')
                where = f"/repo/src/{org[1]}:{org[2]}" if org and org[0] == 'src' else 'contract'
                log(f"    {s.get('label') or ''} [{where}] {s['text'][:160]}")
        suffix = '' if concrete else ' no-failing-input-found'
        log(f'VIOLATION property={pid} replay={replay_path}{suffix}')
        exit_code = 1
    elif undecided:
        for u in undecided:
            log('UNDECIDED:', u[:1500])
        exit_code = 2

    level = spec['level']
    coverage = dict(
        obligations=obligations, discharged=discharged,
        checker_cmd='; '.join(sorted({results[u].cmd for u in all_units if results[u].cmd})) or 'cargo kani',
        trusted_base=VERUS_TRUST + spec.get('trust', []) + sorted(set(assumptions)),
        explanation=spec['title'],
        functions_under_contract=samples,
        samples=samples[:40] or kani_rows[:10],
        obligation_results=fn_rows,
        kani_harnesses=kani_rows,
        solver_time_ms=solver_ms,
        reach_checks={u: results[u].reach for u in all_units if results[u].reach},
        units=[dict(unit=u, status=results[u].status, verified=results[u].verified, wall_s=round(results[u].wall_s, 1),
                    role=('dependency of ' + pid if u in dict(dep_units) else 'own')) for u in all_units],
        bounded_differential=witness_info,
        mutant_self_test=kill_matrix,
        unverified=spec.get('unverified', []),
        failed_obligations=[f['obligation'] for f in failures],
        known_findings=known_ids_hit,
        undecided=undecided,
        verus_version=next((results[u].verus_version for u in all_units if results[u].verus_version), ''),
    )
    if witness_info and witness_info.get('stats'):
        st = witness_info['stats']
        coverage['evaluations'] = st.get('evaluations', 0)
        coverage['distinct_nontrivial'] = st.get('distinct_nontrivial', 0)
        coverage['rule'] = st.get('rule', '')
        if level in ('exploration', 'fault_enumeration') or not coverage['samples']:
            coverage['samples'] = st.get('samples', [])
    evidence = dict(property_id=pid, tier=tier, seed=seed, level=level, coverage=coverage,
                    assumptions=VERUS_TRUST + spec.get('trust', []) + sorted(set(assumptions)) + [
                        'unverified (outside every contract): ' + x for x in spec.get('unverified', [])],
                    wall_s=round(time.time() - t0, 2), violations=len(violations))
    with open(ev_path, 'w') as fh:
        json.dump(evidence, fh, indent=1)
    log(f'{pid} {tier}: obligations={obligations} discharged={discharged} violations={len(violations)} '
        f'known={len(known_ids_hit)} undecided={len(undecided)} wall={evidence["wall_s"]}s exit={exit_code}')
    return exit_code


if __name__ == '__main__':
    try:
        code = main()
    except SystemExit:
        raise
    except BaseException as e:  # a failure of the machinery itself is never a verdict about the property
        import traceback
        traceback.print_exc()
        print(f'UNDECIDED: internal error of the check ({type(e).__name__}: {e})')
        code = 2
    sys.exit(code)
