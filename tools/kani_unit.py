"""Runs Kani harnesses of /verif/kani against /repo (path dependency with feature verif_hooks).

Each harness is a `#[kani::proof]` over `kani::any()` data bounded as stated in its doc comment; the
result is reported as `bounded` (never counted as an unbounded proof).  A FAILED harness carries Kani's
concrete playback values, which are written to a replay file for `replay/` (same decoder as the harness).
"""
import os
import re
import shutil
import subprocess
import time
from concurrent.futures import ThreadPoolExecutor

VERIF = os.path.dirname(os.path.dirname(os.path.abspath(__file__)))
KANI_DIR = os.path.join(VERIF, 'kani')


def _parse_playback(text):
    """-> list of (check description, [values])  from `--concrete-playback=print` output"""
    res = []
    for m in re.finditer(r'/// Check for `(\w+)`: "([^"]*)"(.*?)kani::concrete_playback_run', text, re.S):
        kind, desc, body = m.groups()
        vals = []
        for v in re.finditer(r'vec!\[([0-9, ]*)\]', body):
            bs = [int(x) for x in v.group(1).split(',') if x.strip()]
            n = 0
            for i, b in enumerate(bs):
                n |= b << (8 * i)
            vals.append(n)
        res.append((kind, desc, vals))
    return res


def run_one(h, repo, workdir, env_extra=None):
    name = h['name']
    t0 = time.time()
    env = dict(os.environ, CARGO_NET_OFFLINE='true', CARGO_TARGET_DIR=os.path.join(KANI_DIR, 'target'))
    env.update(env_extra or {})
    cmd = ['cargo', 'kani', '--harness', name, '-Z', 'concrete-playback', '--concrete-playback=print']
    cmd += h.get('extra', [])
    try:
        lock = os.path.join(repo, 'Cargo.lock')
        if os.path.exists(lock) and not os.path.exists(os.path.join(KANI_DIR, 'Cargo.lock')):
            shutil.copy(lock, os.path.join(KANI_DIR, 'Cargo.lock'))
        p = subprocess.run(cmd, cwd=KANI_DIR, env=env, stdout=subprocess.PIPE, stderr=subprocess.STDOUT, text=True,
                           timeout=h.get('timeout', 1500))
        out = p.stdout
    except subprocess.TimeoutExpired as e:
        return dict(harness=name, status='error', detail=f'timeout after {h.get("timeout", 1500)} s', checks=0, checks_ok=0,
                    wall_s=round(time.time() - t0, 1), bound=h['bound'], label=h['label'], cmd=' '.join(cmd))
    res = dict(harness=name, bound=h['bound'], label=h['label'], cmd=' '.join(cmd), wall_s=round(time.time() - t0, 1),
               checks=0, checks_ok=0, detail='', replay_file=None)
    m = re.search(r'\*\* (\d+) of (\d+) failed', out)
    if m:
        res['checks'] = int(m.group(2))
        res['checks_ok'] = int(m.group(2)) - int(m.group(1))
    cov = re.search(r'\*\* (\d+) of (\d+) cover properties satisfied', out)
    res['cover'] = (int(cov.group(1)), int(cov.group(2))) if cov else None
    if 'VERIFICATION:- SUCCESSFUL' in out:
        if cov and int(cov.group(1)) < int(cov.group(2)):
            res['status'] = 'error'
            res['detail'] = 'vacuity guard: a cover property is unsatisfiable (no validated circuit within the bound)'
        else:
            res['status'] = 'ok'
    elif 'VERIFICATION:- FAILED' in out:
        failed = re.findall(r'Failed Checks: (.*)', out)
        if 'out of memory' in out or not failed:
            res['status'] = 'error'
            res['detail'] = 'CBMC failed without a refutation: ' + out[-600:]
        elif all('unwinding assertion' in f for f in failed):
            res['status'] = 'error'
            res['detail'] = 'unwinding bound too small for the current code: ' + '; '.join(failed)
        else:
            res['status'] = 'failed'
            res['message'] = 'Kani refutes: ' + '; '.join(sorted(set(failed)))
            fails = re.findall(r'(Check \d+: [^\n]*\n\s*- Status: FAILURE\n\s*- Description: [^\n]*\n\s*- Location: [^\n]*)', out)
            res['rendered'] = '\n'.join(fails)[:3000] + '\n' + '\n'.join('Failed Checks: ' + f for f in sorted(set(failed)))
            pb = [x for x in _parse_playback(out) if x[0] != 'cover']
            if pb:
                os.makedirs(workdir, exist_ok=True)
                path = os.path.join(VERIF, 'replays', f'{name}.kani.txt')
                os.makedirs(os.path.dirname(path), exist_ok=True)
                with open(path, 'w') as fh:
                    fh.write('kind: kani-values\n')
                    fh.write(f'harness: {name}\nmax_items: {h.get("max_items", 3)}\n')
                    fh.write('values: ' + ', '.join(str(v) for v in pb[0][2]) + '\n')
                    fh.write(f'failed_check: {pb[0][1]}\n')
                    fh.write('note: values are the kani::any() draws of the harness in order; `replay` feeds them to the '
                             'same decoder (kani/src/decode.rs) and runs the real validate/eval\n')
                res['replay_file'] = path
    else:
        res['status'] = 'error'
        res['detail'] = 'kani did not report a verdict: ' + out[-1500:]
    res['spans'] = []
    res['tags'] = []
    res['fn'] = h.get('fn')
    return res


def _parse_parallel(out, names):
    """split `cargo kani -j N --output-format terse` output into per-harness blocks"""
    blocks = {n: '' for n in names}
    thread_h = {}
    cur = None
    for line in out.split('\n'):
        m = re.match(r'Thread (\d+): Checking harness (\S+?)\.\.\.', line)
        if m:
            thread_h[m.group(1)] = m.group(2).split('::')[-1]
            cur = None
            continue
        m = re.match(r'Thread (\d+):\s*$', line)
        if m:
            cur = thread_h.get(m.group(1))
            continue
        if cur in blocks:
            blocks[cur] += line + '\n'
    return blocks


def run_harnesses(harnesses, repo, workdir, tier):
    hs = [h for h in harnesses if tier == 'thorough' or not h.get('thorough_only')]
    if not hs:
        return []
    t0 = time.time()
    env = dict(os.environ, CARGO_NET_OFFLINE='true', CARGO_TARGET_DIR=os.path.join(KANI_DIR, 'target'))
    lock = os.path.join(repo, 'Cargo.lock')
    if os.path.exists(lock):
        shutil.copy(lock, os.path.join(KANI_DIR, 'Cargo.lock'))
    cmd = ['cargo', 'kani', '--output-format', 'terse', '-j', str(max(2, min(4, len(hs))))]
    for h in hs:
        cmd += ['--harness', h['name']]
    try:
        p = subprocess.run(cmd, cwd=KANI_DIR, env=env, stdout=subprocess.PIPE, stderr=subprocess.STDOUT, text=True,
                           timeout=max(h.get('timeout', 1500) for h in hs))
        out = p.stdout
    except subprocess.TimeoutExpired:
        return [dict(harness=h['name'], status='error', detail='timeout', checks=0, checks_ok=0, wall_s=round(time.time() - t0, 1),
                     bound=h['bound'], label=h['label'], cmd=' '.join(cmd)) for h in hs]
    blocks = _parse_parallel(out, [h['name'] for h in hs])
    if len(hs) == 1 and not blocks[hs[0]['name']].strip():
        blocks[hs[0]['name']] = out   # a single harness runs without `Thread N:` prefixes
    results = []
    failed_hs = [h for h in hs if 'VERIFICATION:- FAILED' in blocks[h['name']]]
    reruns = {}
    if failed_hs:
        def rr(h):
            e = dict(CARGO_TARGET_DIR=os.path.join(KANI_DIR, 'target_' + h['name']))
            return h['name'], run_one(h, repo, workdir, env_extra=e)
        with ThreadPoolExecutor(max_workers=min(3, len(failed_hs))) as ex:
            reruns = dict(ex.map(rr, failed_hs))
    for h in hs:
        b = blocks[h['name']]
        res = dict(harness=h['name'], bound=h['bound'], label=h['label'], cmd=' '.join(cmd), checks=0, checks_ok=0, detail='',
                   replay_file=None, spans=[], tags=[], fn=h.get('fn'))
        m = re.search(r'\*\* (\d+) of (\d+) failed', b)
        if m:
            res['checks'], res['checks_ok'] = int(m.group(2)), int(m.group(2)) - int(m.group(1))
        vt = re.search(r'Verification Time: ([0-9.]+)s', b)
        res['wall_s'] = float(vt.group(1)) if vt else round(time.time() - t0, 1)
        cov = re.search(r'\*\* (\d+) of (\d+) cover properties satisfied', b)
        if 'VERIFICATION:- SUCCESSFUL' in b:
            if cov and int(cov.group(1)) < int(cov.group(2)):
                res['status'], res['detail'] = 'error', 'vacuity guard: cover property unsatisfiable (no validated circuit within the bound)'
            else:
                res['status'] = 'ok'
        elif 'VERIFICATION:- FAILED' in b:
            # re-run this harness alone with concrete playback to obtain the counterexample
            r1 = reruns[h['name']]
            shutil.rmtree(os.path.join(KANI_DIR, 'target_' + h['name']), ignore_errors=True)
            r1['cmd'] = ' '.join(cmd) + ' ; ' + r1.get('cmd', '')
            res = r1
        else:
            res['status'] = 'error'
            res['detail'] = 'kani gave no verdict for this harness: ' + (b[-800:] or out[-1500:])
        results.append(res)
    return results
