"""Runs Kani harnesses of /verif/kani against /repo (path dependency).  Filled in with the C16 unit."""


def run_harnesses(harnesses, repo, workdir, tier):
    return []
