#!/usr/bin/env python3
"""Regenerates /verif/MANIFEST.json from tools/props.py (claimed checks) and tools/na.py (not applicable)."""
import json
import os
import sys

TOOLS = os.path.dirname(os.path.abspath(__file__))
VERIF = os.path.dirname(TOOLS)
sys.path.insert(0, TOOLS)
from props import PROPS  # noqa: E402
from na import NOT_APPLICABLE, HOOK_COMMITS  # noqa: E402

checks = []
for pid in sorted(PROPS):
    s = PROPS[pid]
    checks.append(dict(
        property_id=pid,
        quick_cmd=f'./check {pid} quick',
        thorough_cmd=f'./check {pid} thorough',
        evidence_file=f'/verif/evidence/{pid}.json',
        replay_cmd_template='./check --replay {path}',
        engine='contracts',
        level_claimed=dict(category=s['level'], text=s['claim'], design_ref=s.get('design_ref', 'DESIGN.md §4 ' + pid)),
        level_note=s['note'],
        technique=s['technique'],
    ))
m = dict(
    version=1,
    setup_cmd='./setup.sh',
    hooks=dict(
        guard='verif_hooks',
        enable='cargo feature: --features verif_hooks (replay/ and kani/ depend on /repo by path with the feature on); '
               'Verus units read /repo/src directly and need no hook',
        baseline_off_cmd='cd /repo && cargo test --workspace --no-fail-fast --offline',
        source_commits=HOOK_COMMITS,
        add_only=True,
    ),
    engines=[dict(name='contracts', path='/verif/tools/check.py', serves_properties=sorted(PROPS),
                  kind_free_text='contract-based deductive verification: Verus on functions extracted mechanically from '
                                 '/repo/src on every run (tools/weave.py + contracts/*.rs.tmpl), Kani function contracts / '
                                 'harnesses on the real crate (kani/), witness search and replay on the real crate (replay/)')],
    checks=checks,
    notes='See DESIGN.md. exit 2 = machinery could not decide (never reported as a violation).',
    not_applicable=[dict(property_id=k, reason=v) for k, v in sorted(NOT_APPLICABLE.items()) if k not in PROPS],
)
json.dump(m, open(os.path.join(VERIF, 'MANIFEST.json'), 'w'), indent=1)
print('MANIFEST.json:', len(checks), 'checks,', len(m['not_applicable']), 'not applicable')
