"""Generic, syntax-directed desugarings (DESIGN.md §2.2, rules R0-R3) applied to extracted function text.

Every rule is keyed on syntax only (never on a function name).  Each returns the new text and the
number of rewrites performed; the caller records the counts in the evidence file.
The rewrites keep the line structure (no line is added or removed) so that line numbers of the
woven file map 1:1 onto the lines of the source range.
"""
import re
from rustlex import lex, match_close, OPEN


class Unsupported(Exception):
    pass


def _tok_text(src, toks, a, b):
    """source text spanned by tokens a..b (inclusive)"""
    return src[toks[a].start:toks[b].end]


def r0_visibility_and_stats(text):
    n = 0
    # drop visibility on fn items
    new, k = re.subn(r'(?m)^(\s*)pub(\((crate|super)\))?\s+(?=(const\s+)?fn\b)', r'\1', text)
    n += k
    # drop the statistics counter updates (dead value; see DESIGN R0); keep the line (blank) for line mapping
    new, k = re.subn(r'(?m)^(\s*)self\.gates_optimized \+= [A-Za-z0-9_]+;[ \t]*$', r'\1', new)
    n += k
    return new, n


def _apply_edits(text, edits):
    """edits: list of (start, end, replacement) non-overlapping"""
    out, pos = [], 0
    for s, e, r in sorted(edits):
        assert s >= pos, 'overlapping edits'
        out.append(text[pos:s])
        out.append(r)
        pos = e
    out.append(text[pos:])
    return ''.join(out)


def _find_block_open(toks, k):
    """first `{` at paren/bracket depth 0 starting at token k"""
    pd = 0
    j = k
    while j < len(toks):
        x = toks[j]
        if x.kind == 'punct':
            if x.text in '([':
                pd += 1
            elif x.text in ')]':
                pd -= 1
            elif x.text == '{' and pd == 0:
                return j
        j += 1
    raise Unsupported('no block after let/for header')


def r1_ref_patterns(text):
    """`if let Some(&N) = E {`  =>  `if let Some(N__r) = E { let N = *N__r;`
    also `while let`, tuple-of-Some patterns, and `for &N in E {`."""
    toks = lex(text)
    edits, n = [], 0
    for k, t in enumerate(toks):
        if t.kind != 'ident':
            continue
        if t.text in ('if', 'while') and k + 1 < len(toks) and toks[k + 1].text == 'let':
            # pattern = tokens up to the `=` at depth 0
            j, pd = k + 2, 0
            names = []
            while not (toks[j].text == '=' and pd == 0 and toks[j + 1].text != '='):
                x = toks[j]
                if x.text in '([':
                    pd += 1
                elif x.text in ')]':
                    pd -= 1
                elif x.text == '&' and toks[j + 1].kind == 'ident' and toks[j + 1].text != 'mut':
                    names.append((j, toks[j + 1].text))
                j += 1
            if not names:
                continue
            ob = _find_block_open(toks, j + 1)
            for (p, name) in names:
                edits.append((toks[p].start, toks[p + 1].end, name + '__r'))
            binds = ''.join(f' let {name} = *{name}__r;' for _, name in names)
            edits.append((toks[ob].end, toks[ob].end, binds))
            n += len(names)
        elif t.text == 'for' and k + 2 < len(toks) and toks[k + 1].text == '&' and toks[k + 2].kind == 'ident' \
                and toks[k + 3].text == 'in':
            name = toks[k + 2].text
            ob = _find_block_open(toks, k + 4)
            edits.append((toks[k + 1].start, toks[k + 2].end, name + '__r'))
            edits.append((toks[ob].end, toks[ob].end, f' let {name} = *{name}__r;'))
            n += 1
    return _apply_edits(text, edits), n


def _split_commas(toks, a, b):
    """split token range (a, b) exclusive at depth-0 commas -> list of (first, last) token indices"""
    parts, depth, start = [], 0, a + 1
    for j in range(a + 1, b):
        x = toks[j]
        if x.kind == 'punct':
            if x.text in OPEN:
                depth += 1
            elif x.text in ')]}':
                depth -= 1
            elif x.text == ',' and depth == 0:
                parts.append((start, j - 1))
                start = j + 1
    if start <= b - 1:
        parts.append((start, b - 1))
    return parts


def r2_array_literal_loops(text):
    """`for PAT in [e1, .., en] { BODY }` (no break/continue in BODY) => n copies `{ let PAT = ei; BODY }`."""
    n = 0
    while True:
        toks = lex(text)
        hit = None
        for k, t in enumerate(toks):
            if t.kind == 'ident' and t.text == 'for':
                # find `in` at depth 0
                j, pd = k + 1, 0
                while j < len(toks) and not (toks[j].kind == 'ident' and toks[j].text == 'in' and pd == 0):
                    if toks[j].text in '([':
                        pd += 1
                    elif toks[j].text in ')]':
                        pd -= 1
                    j += 1
                if j + 1 < len(toks) and toks[j + 1].text == '[':
                    cb = match_close(toks, j + 1)
                    if toks[cb + 1].text == '{':
                        hit = (k, j, j + 1, cb, cb + 1, match_close(toks, cb + 1))
                        break
        if not hit:
            return text, n
        kf, kin, ob, cb, bo, bc = hit
        body_toks = toks[bo + 1:bc]
        # break/continue that belong to a nested loop would be fine, but we stay conservative
        if any(x.kind == 'ident' and x.text in ('break', 'continue') for x in body_toks):
            raise Unsupported('R2: break/continue inside array-literal loop')
        pat = text[toks[kf + 1].start:toks[kin - 1].end]
        body = text[toks[bo].end:toks[bc].start]
        elems = [text[toks[a].start:toks[b].end] for a, b in _split_commas(toks, ob, cb)]
        # keep line structure: first copy keeps the original newlines, further copies are flattened
        flat = ' '.join(l.strip() for l in body.splitlines())
        pieces = []
        for i, e in enumerate(elems):
            e1 = ' '.join(e.split())
            pieces.append('{ let ' + pat + ' = ' + e1 + ';' + (body if i == 0 else ' ' + flat + ' ') + '}')
        # the header `for PAT in [ .. ] {` may span several lines; preserve the count of newlines
        header = text[toks[kf].start:toks[bo].end]
        nl = header.count('\n')
        repl = ('\n' * nl) + ' '.join(pieces)
        text = text[:toks[kf].start] + repl + text[toks[bc].end:]
        n += 1


def _strip_iter(expr):
    """X.iter() -> X ;  X -> X"""
    e = expr.strip()
    if e.endswith('.iter()'):
        return e[:-len('.iter()')], True
    return e, False


def r3_zip_enumerate(text):
    """index-loop forms of zip / enumerate over slices (see DESIGN R3)."""
    n = 0
    uid = 0
    while True:
        toks = lex(text)
        hit = None
        for k, t in enumerate(toks):
            if not (t.kind == 'ident' and t.text == 'for'):
                continue
            j, pd = k + 1, 0
            while j < len(toks) and not (toks[j].kind == 'ident' and toks[j].text == 'in' and pd == 0):
                if toks[j].text in '([':
                    pd += 1
                elif toks[j].text in ')]':
                    pd -= 1
                j += 1
            if j >= len(toks):
                continue
            ob = _find_block_open(toks, j + 1)
            expr = text[toks[j + 1].start:toks[ob - 1].end]
            flat = ''.join(expr.split())
            if '.zip(' in flat or flat.endswith('.enumerate()'):
                hit = (k, j, ob)
                break
        if not hit:
            return text, n
        kf, kin, ob = hit
        pat = ''.join(text[toks[kf + 1].start:toks[kin - 1].end].split())
        header = text[toks[kf].start:toks[ob].end]
        expr = ''.join(text[toks[kin + 1].start:toks[ob - 1].end].split())
        enum = expr.endswith('.enumerate()')
        if enum:
            expr = expr[:-len('.enumerate()')]
        idx = None
        if enum:
            m = re.match(r'^\((\w+),(.*)\)$', pat)
            if not m:
                raise Unsupported('R3: enumerate pattern ' + pat)
            idx, pat = m.group(1), m.group(2)
        mz = re.match(r'^(.*)\.iter\(\)\.zip\((.*)\)$', expr)
        if mz:
            X = mz.group(1)
            Y, _ = _strip_iter(mz.group(2))
            mp = re.match(r'^\((&?)(\w+),(&?)(\w+)\)$', pat)
            if not mp:
                raise Unsupported('R3: zip pattern ' + pat)
            ra, A, rb, B = mp.groups()
            if idx is None:
                uid += 1
                idx = f'i__{uid}'
            ea = f'{X}[{idx}]' if ra else f'&{X}[{idx}]'
            eb = f'{Y}[{idx}]' if rb else f'&{Y}[{idx}]'
            new_header = (f'let n__{idx} = if {X}.len() < {Y}.len() {{ {X}.len() }} else {{ {Y}.len() }}; '
                          f'for {idx} in 0..n__{idx} {{ let ({A}, {B}) = ({ea}, {eb});')
        elif enum and expr.endswith('.iter_mut()'):
            # `for (I, W) in X.iter_mut().enumerate() { .. *W .. }` => `for I in 0..X.len() { .. X[I] .. }`
            X = expr[:-len('.iter_mut()')]
            if not re.match(r'^\w+$', pat):
                raise Unsupported('R3: iter_mut element pattern ' + pat)
            cb = match_close(toks, ob)
            body = text[toks[ob].end:toks[cb].start]
            if re.search(r'(?<![*\w])' + re.escape(pat) + r'\b', body):
                raise Unsupported('R3: iter_mut element used other than as *' + pat)
            body2 = re.sub(r'\*' + re.escape(pat) + r'\b', f'{X}[{idx}]', body)
            nl = header.count('\n')
            text = (text[:toks[kf].start] + ('\n' * nl) + f'for {idx} in 0..{X}.len() {{' + body2 + text[toks[cb].start:])
            n += 1
            continue
        else:
            copied = enum and expr.endswith('.iter().copied()')
            if copied:
                expr = expr[:-len('.copied()')]
            if not enum or not (expr.endswith('.iter()') or expr.endswith('.into_iter()')):
                raise Unsupported('R3: iterator expression ' + expr)
            X = expr[:-len('.iter()')] if expr.endswith('.iter()') and not expr.endswith('.into_iter()') else expr[:-len('.into_iter()')]
            mp = re.match(r'^(&?)(\w+)$', pat)
            if not mp:
                raise Unsupported('R3: enumerate element pattern ' + pat)
            ra, A = mp.groups()
            ea = f'{X}[{idx}]' if (ra or copied) else f'&{X}[{idx}]'
            new_header = f'for {idx} in 0..{X}.len() {{ let {A} = {ea};'
        nl = header.count('\n')
        text = text[:toks[kf].start] + ('\n' * nl) + new_header + text[toks[ob].end:]
        n += 1


def r8_assert_eq(text):
    """`assert_eq!(A, B);` => `assert!(A == B);` (same panic condition; Verus has no spec for assert_failed)"""
    toks = lex(text)
    edits, n = [], 0
    for k, t in enumerate(toks):
        if t.kind == 'ident' and t.text == 'assert_eq' and toks[k + 1].text == '!' and toks[k + 2].text == '(':
            close = match_close(toks, k + 2)
            parts = _split_commas(toks, k + 2, close)
            if len(parts) != 2:
                raise Unsupported('R8: assert_eq! with a message')
            a = text[toks[parts[0][0]].start:toks[parts[0][1]].end]
            b = text[toks[parts[1][0]].start:toks[parts[1][1]].end]
            nl = text[toks[k].start:toks[close].end].count('\n')
            edits.append((toks[k].start, toks[close].end, f'assert!(({a}) == ({b}))' + '\n' * nl))
            n += 1
    return _apply_edits(text, edits), n


def r9_subslice_copy(text):
    """`V[A..].copy_from_slice(S);` => `assert!(V.len() - A == S.len()); for k__N in 0..S.len() { V[A + k__N] = S[k__N]; }`
    (Verus does not model a mutable sub-slice borrow of a Vec; the length check keeps the panic condition)."""
    n = 0
    while True:
        m = re.search(r'(?m)^(\s*)([A-Za-z_][A-Za-z0-9_]*)\[([A-Za-z0-9_]+)\.\.\]\.copy_from_slice\(&?([A-Za-z_][A-Za-z0-9_]*)\);[ \t]*$', text)
        if not m:
            return text, n
        n += 1
        ind, v, a, src = m.groups()
        k = f'k__{n}'
        new = (f'{ind}assert!(({v}.len() - {a}) == ({src}.len())); for {k} in 0..{src}.len() {{ {v}[{a} + {k}] = {src}[{k}]; }}')
        text = text[:m.start()] + new + text[m.end():]


def r12_subslice_to_subslice(text):
    """`V[..B].clone_from_slice(&S[C..D]);` (also copy_from_slice; may span two lines) =>
    `assert!(B <= V.len() && C <= D && D <= S.len() && (B) == (D) - (C)); for c__N in 0..(B) { V[c__N] = S[(C) + c__N]; }`
    (Verus does not model sub-slice borrows; the assert keeps every panic condition of the two slicings and of the length check)."""
    n = 0
    while True:
        m = re.search(r'(?m)^(\s*)([A-Za-z_][A-Za-z0-9_]*)\[\.\.([^\]]+)\]\s*\.(?:clone|copy)_from_slice\(&([A-Za-z_][A-Za-z0-9_]*)\[([A-Za-z0-9_]+)\.\.([^\]]+)\]\);[ \t]*$', text)
        if not m:
            return text, n
        n += 1
        ind, v, b, src, c, d = m.groups()
        k = f'c__{n}'
        nl = text[m.start():m.end()].count('\n')
        new = (f'{ind}assert!(({b}) <= {v}.len() && ({c}) <= ({d}) && ({d}) <= {src}.len() && ({b}) == ({d}) - ({c})); '
               f'for {k} in 0..({b}) {{ {v}[{k}] = {src}[({c}) + {k}]; }}' + '\n' * nl)
        text = text[:m.start()] + new + text[m.end():]


def r13_copied_take(text):
    """`for V in X.iter().copied().take(N) {` => `for t__K in 0..(if (N) < X.len() { N } else { X.len() }) { let V = X[t__K];`"""
    n = 0
    while True:
        m = re.search(r'(?m)^(\s*)for (\w+) in ([A-Za-z_][A-Za-z0-9_]*)\.iter\(\)\.copied\(\)\.take\(([A-Za-z0-9_]+)\) \{[ \t]*$', text)
        if not m:
            return text, n
        n += 1
        ind, v, x, cnt = m.groups()
        i = f't__{n}'
        new = f'{ind}for {i} in 0..(if {cnt} < {x}.len() {{ {cnt} }} else {{ {x}.len() }}) {{ let {v} = {x}[{i}];'
        text = text[:m.start()] + new + text[m.end():]


def r15_iter_all_eq(text):
    """`X.iter().all(|V| *V == LIT)` => `iter_all_eq(&X, LIT)`: closures over iterators are outside Verus' subset; the template
    defines `iter_all_eq` (a verified loop) with the meaning of Iterator::all for this predicate."""
    n = 0
    while True:
        m = re.search(r'\b((?:self\.)?[A-Za-z_][A-Za-z0-9_]*)\.iter\(\)\.all\(\|(\w+)\| \*\2 == (\w+)\)', text)
        if not m:
            return text, n
        n += 1
        text = text[:m.start()] + f'iter_all_eq(&{m.group(1)}, {m.group(3)})' + text[m.end():]


def r16_map_collect_tail(text):
    """a line `X.iter().map(|V| E).collect()` (tail expression of a block) => `let mut o__N = Vec::new(); for V in X.iter() { o__N.push(E); } o__N`
    (Iterator::map + collect into a Vec, written as the loop it denotes)."""
    n = 0
    while True:
        m = re.search(r'(?m)^(\s*)((?:self\.)?[A-Za-z_][A-Za-z0-9_]*)\.iter\(\)\.map\(\|(\w+)\| ([^|;{}]+)\)\.collect\(\)[ \t]*$', text)
        if not m:
            return text, n
        n += 1
        ind, x, v, e = m.groups()
        o = f'o__{n}'
        new = f'{ind}let mut {o} = Vec::new(); for {v} in {x}.iter() {{ {o}.push({e}); }} {o}'
        text = text[:m.start()] + new + text[m.end():]


def r17_match_arm_ref_guard(text):
    """match arm `Some(&V) if GUARD => {}` => `Some(V) if GUARD[V := (*V)] => {}` (Verus has no ref patterns; the arm body is empty,
    so only the single-line guard mentions V)."""
    n = 0
    while True:
        m = re.search(r'(?m)^(\s*)Some\(&(\w+)\) if ([^\n{}]*?) => \{\}', text)
        if not m:
            return text, n
        n += 1
        ind, v, guard = m.groups()
        guard2 = re.sub(r'\b' + re.escape(v) + r'\b', f'(*{v})', guard)
        text = text[:m.start()] + f'{ind}Some({v}) if {guard2} => {{}}' + text[m.end():]


def r18_bool_bitand(text):
    """`A[I] & B[J]` (also `A[*I].unwrap() & B[*J].unwrap()`) on indexed operands => `{ let l__N = A[I]; let r__N = B[J]; l__N && r__N }` (Verus has no `&` on bool; both
    operands are still evaluated, so every index check of the original is kept)."""
    n = 0
    while True:
        m = re.search(r'(\b\w+\[\*?\w+\](?:\.unwrap\(\))?) & (\w+\[\*?\w+\](?:\.unwrap\(\))?)', text)
        if not m:
            return text, n
        n += 1
        text = text[:m.start()] + f'{{ let l__{n} = {m.group(1)}; let r__{n} = {m.group(2)}; l__{n} && r__{n} }}' + text[m.end():]


def r20_iter_skip(text):
    """`for &W in X.iter().skip(K) {` => `for s__N in K..X.len() { let W = X[s__N];`"""
    n = 0
    while True:
        m = re.search(r'(?m)^(\s*)for &(\w+) in ([A-Za-z_][A-Za-z0-9_]*)\.iter\(\)\.skip\((\w+)\) \{[ \t]*$', text)
        if not m:
            # the form left by R1: `for W__r in X.iter().skip(K) { let W = *W__r;`
            m = re.search(r'(?m)^(\s*)for (\w+)__r in ([A-Za-z_][A-Za-z0-9_]*)\.iter\(\)\.skip\((\w+)\) \{ let \2 = \*\2__r;[ \t]*$', text)
        if not m:
            # `for W in X.iter_mut().skip(K) { .. *W .. }` => `for s__N in K..X.len() { .. X[s__N] .. }` (W only as `*W`)
            mm = re.search(r'(?m)^(\s*)for (\w+) in ([A-Za-z_][A-Za-z0-9_]*)\.iter_mut\(\)\.skip\((\w+)\) \{[ \t]*$', text)
            if mm:
                toks = lex(text)
                ob = next(k for k, t in enumerate(toks) if t.text == '{' and t.start >= mm.end() - 3)
                cb = match_close(toks, ob)
                ind, w, x, kk = mm.groups()
                body = text[toks[ob].end:toks[cb].start]
                if re.search(r'(?<![*\w])' + re.escape(w) + r'\b', body):
                    raise Unsupported('R20: iter_mut element used other than as *' + w)
                n += 1
                i = f's__{n}'
                body2 = re.sub(r'\*' + re.escape(w) + r'\b', f'{x}[{i}]', body)
                text = text[:mm.start()] + f'{ind}for {i} in {kk}..{x}.len() {{' + body2 + text[toks[cb].start:]
                continue
        if not m:
            return text, n
        n += 1
        ind, w, x, k = m.groups()
        i = f's__{n}'
        text = text[:m.start()] + f'{ind}for {i} in {k}..{x}.len() {{ let {w} = {x}[{i}];' + text[m.end():]


def r21_let_map_collect(text):
    """`let NAME: Vec<T> = X.into_iter().map(|V| E).collect();` (X a Vec of a Copy type) =>
    `let mut NAME__o = Vec::new(); for m__N in 0..X.len() { let V = X[m__N]; NAME__o.push(E); } let NAME: Vec<T> = NAME__o;`"""
    n = 0
    while True:
        m = re.search(r'(?m)^(\s*)let (\w+): (Vec<\w+>) =\s*(\w+)\.into_iter\(\)\.map\(\|(\w+)\| ([^|;{}]+)\)\.collect\(\);[ \t]*$', text)
        if not m:
            return text, n
        n += 1
        ind, name, ty, x, v, e = m.groups()
        k = f'm__{n}'
        nl = text[m.start():m.end()].count('\n')
        new = (f'{ind}let mut {name}__o = Vec::new(); for {k} in 0..{x}.len() {{ let {v} = {x}[{k}]; {name}__o.push({e}); }} '
               f'let {name}: {ty} = {name}__o;' + '\n' * nl)
        text = text[:m.start()] + new + text[m.end():]


def r22_vec_extend(text):
    """`IDENT.extend(EXPR)` (statement) => `vec_extend(&mut IDENT, EXPR)`: Vec::extend is generic over IntoIterator and has no vstd
    specification; the template defines `vec_extend` for a vector argument as a verified loop of pushes."""
    n = 0
    while True:
        m = re.search(r'(?m)^(\s*)([a-z_][A-Za-z0-9_]*)\.extend\((.*)\)(;?)[ \t]*$', text)
        if not m:
            return text, n
        n += 1
        ind, v, e, semi = m.groups()
        text = text[:m.start()] + f'{ind}vec_extend(&mut {v}, {e}){semi}' + text[m.end():]


def r23_range_copy(text):
    """`V[A..B].copy_from_slice(&S);` => `assert!((A) <= (B) && (B) <= V.len() && (B) - (A) == S.len()); for r__N in 0..S.len() { V[(A) + r__N] = S[r__N]; }`"""
    n = 0
    while True:
        m = re.search(r'(?m)^(\s*)([A-Za-z_][A-Za-z0-9_]*)\[([^\]\n]+?)\.\.([^\]\n]+)\]\.copy_from_slice\(&([A-Za-z_][A-Za-z0-9_]*)\);[ \t]*$', text)
        if not m:
            return text, n
        n += 1
        ind, v, a, b, src = m.groups()
        k = f'r__{n}'
        new = (f'{ind}assert!(({a}) <= ({b}) && ({b}) <= {v}.len() && ({b}) - ({a}) == {src}.len()); '
               f'for {k} in 0..{src}.len() {{ {v}[({a}) + {k}] = {src}[{k}]; }}')
        text = text[:m.start()] + new + text[m.end():]


def r24_opaque_iter(text):
    """`E.wires()` (declared `-> impl Iterator<Item = Wire>`, a chain of flat_map / map / chain closures that Verus cannot type) =>
    `wires_of(E)`, an external_body function of the template returning the yielded wires as a vector under a TRUSTED contract;
    `let W = wires_of(E); .. for (I, G) in W.enumerate() {` and `for (I, G) in wires_of(E).enumerate() {` =>
    `let w__N = <iterator>; for I in 0..w__N.len() { let G = w__N[I];`; when the loop body contains `continue` (not supported in
    Verus' for loops): `let w__N = <iterator>; let mut c__N: usize = 0; while c__N < w__N.len() { let I = c__N; c__N += 1; let G = w__N[I];`."""
    n = u = 0
    text, k = re.subn(r'\b((?:self\.)?[A-Za-z_][A-Za-z0-9_.]*?)\.wires\(\)', r'wires_of(\1)', text)
    n += k
    while True:
        m = re.search(r'(?m)^(\s*)for \((\w+), (\w+)\) in (\w+|wires_of\([\w.]+\))\.enumerate\(\) \{[ \t]*$', text)
        if not m:
            return text, n
        n += 1
        u += 1
        ind, i, g, it = m.groups()
        w = f'w__{u}'
        toks = lex(text)
        ob = max(k for k, t in enumerate(toks) if t.text == '{' and t.end <= m.end())
        cb = match_close(toks, ob)
        has_continue = any(t.kind == 'ident' and t.text == 'continue' for t in toks[ob:cb])
        if has_continue:
            # Verus' for loops do not support `continue`: the same iteration as a while loop whose counter is advanced first
            c = f'c__{u}'
            new = f'{ind}let {w} = {it}; let mut {c}: usize = 0; while {c} < {w}.len() {{ let {i} = {c}; {c} += 1; let {g} = {w}[{i}];'
        else:
            new = f'{ind}let {w} = {it}; for {i} in 0..{w}.len() {{ let {g} = {w}[{i}];'
        text = text[:m.start()] + new + text[m.end():]


def r25_iter_sum(text):
    """`X.iter().sum()` / `X.iter().sum::<usize>()` => `iter_sum(&X)`: the template defines `iter_sum` as a verified loop of additions
    (precondition: the sum fits, as Iterator::sum panics on overflow under overflow checks)."""
    n = 0
    while True:
        m = re.search(r'\b((?:self\.)?[A-Za-z_][A-Za-z0-9_]*)\.iter\(\)\.sum(?:::<usize>)?\(\)', text)
        if not m:
            return text, n
        n += 1
        text = text[:m.start()] + f'iter_sum(&{m.group(1)})' + text[m.end():]


def r26_slice_iters(text):
    """`let X: Vec<_> = X.iter().map(|X| X.iter()).collect();` is dropped: it shadows a slice of vectors by the vector of their
    slice iterators, which are never advanced and only used through `.len()` and `.as_slice()`; both agree with `Vec::len` /
    `Vec::as_slice` of the shadowed vectors, so the remaining text means the same with the original binding."""
    n = 0
    while True:
        m = re.search(r'(?m)^(\s*)let (\w+): Vec<_> = \2\.iter\(\)\.map\(\|\2\| \2\.iter\(\)\)\.collect\(\);[ \t]*$', text)
        if not m:
            return text, n
        x = m.group(2)
        rest = text[m.end():]
        rt = lex(rest)
        for k, t in enumerate(rt):
            if t.kind == 'ident' and t.text == x and not (k > 0 and rt[k - 1].text == '.'):
                after = ''.join(u.text for u in rt[k + 1:k + 9])
                if not (after.startswith('.len()') or after.startswith('@') or re.match(r'^\[\w+\]\.(len|as_slice)\(\)', after)):
                    raise Unsupported('R26: use of the iterator vector other than .len() / [i].len() / [i].as_slice(): ' + after)
        n += 1
        text = text[:m.start()] + m.group(1) + text[m.end():]


def r27_add_assign_ref(text):
    """`for V in X.iter() { .. ACC += V; .. }` => `ACC += *V;` (core's `impl AddAssign<&usize> for usize` is `*self += *other`; Verus has
    no specification for the by-reference impl)."""
    n = 0
    for m in list(re.finditer(r'(?m)^\s*for (\w+) in [\w.]+\.iter\(\) \{[ \t]*$', text)):
        v = m.group(1)
        text, k = re.subn(r'(?m)^(\s*\w+ \+= )' + re.escape(v) + r';[ \t]*$', r'\1*' + v + ';', text)
        n += k
    return text, n


import threading
_TL = threading.local()   # per-thread options of the //@fn line being woven (units are woven concurrently)


def set_opts(d):
    _TL.opts = dict(d)


def r28_mut_self(text):
    """`fn f(mut self, ..) { BODY }` => `fn f(self, ..) { let mut s__ = self; BODY[self := s__] }` (Verus: "mut self" unsupported)."""
    toks = lex(text)
    k = 0
    while k < len(toks) and not (toks[k].kind == 'ident' and toks[k].text == 'fn'):
        k += 1
    if k >= len(toks):
        return text, 0
    j = k
    while toks[j].text != '(':
        j += 1
    if not (toks[j + 1].text == 'mut' and toks[j + 2].text == 'self'):
        return text, 0
    close = match_close(toks, j)
    bo = _find_block_open(toks, close + 1)
    bc = match_close(toks, bo)
    edits = [(toks[j + 1].start, toks[j + 2].start, '')]
    edits.append((toks[bo].end, toks[bo].end, ' let mut s__ = self;'))
    for q in range(bo + 1, bc):
        if toks[q].kind == 'ident' and toks[q].text == 'self':
            edits.append((toks[q].start, toks[q].end, 's__'))
    return _apply_edits(text, edits), 1


def r29_map_index(text):
    """option maps=F1+F2 of the //@fn line names the fields that are HashMaps: `PATH.F[E]` => `(*PATH.F.get(E).unwrap())` (std's
    `Index for HashMap` is `self.get(key).expect("no entry found for key")`; the orphan rule keeps a template from giving it a
    precondition, Option::unwrap has one)."""
    names = [x for x in getattr(_TL, 'opts', {}).get('maps', '').split('+') if x]
    n = 0
    for f in names:
        while True:
            m = re.search(r'\b((?:\w+\.)+' + re.escape(f) + r')\[([^\[\]]+)\]', text)
            if not m:
                break
            n += 1
            text = text[:m.start()] + f'(*{m.group(1)}.get({m.group(2)}).unwrap())' + text[m.end():]
    return text, n


def r21b_let_chain_map_collect(text):
    """`let NAME = CHAIN.iter().map(|V| E).collect();` (CHAIN a field path, possibly one segment per line) =>
    `let mut NAME__o = Vec::new(); for V in CHAIN.iter() { NAME__o.push(E); } let NAME = NAME__o;`"""
    n = 0
    while True:
        m = re.search(r'(?m)^([ \t]*)let (\w+) = ((?:\w+\s*\.\s*)+\w+)\s*\.iter\(\)\s*\.map\(\|(\w+)\| ([^|;{}]+)\)\s*\.collect\(\);[ \t]*$', text)
        if not m:
            return text, n
        n += 1
        ind, name, chain, v, e = m.groups()
        chain = ''.join(chain.split())
        nl = text[m.start():m.end()].count('\n')
        new = (f'{ind}let mut {name}__o = Vec::new(); for {v} in {chain}.iter() {{ {name}__o.push({e}); }} let {name} = {name}__o;' + '\n' * nl)
        text = text[:m.start()] + new + text[m.end():]


def r30_iter_mut_enumerate_take(text):
    """`for (I, W) in X.iter_mut().enumerate().take(N) { .. *W .. }` => `for I in 0..(if N < X.len() { N } else { X.len() }) { .. X[I] .. }`
    (W only used as `*W`)."""
    n = 0
    while True:
        # (R30b) the same loop over the elements from index N on: `.iter_mut().enumerate().skip(N)` => `for I in (if N < X.len() { N } else { X.len() })..X.len()`
        ms = re.search(r'(?m)^([ \t]*)for \((\w+), (\w+)\) in (\w+)\.iter_mut\(\)\.enumerate\(\)\.skip\((\w+)\) \{[ \t]*$', text)
        if ms:
            ind, i, w, x, cnt = ms.groups()
            toks = lex(text)
            ob = max(k for k, t in enumerate(toks) if t.text == '{' and t.end <= ms.end())
            cb = match_close(toks, ob)
            body = text[toks[ob].end:toks[cb].start]
            if re.search(r'(?<![*\w])' + re.escape(w) + r'\b', body):
                raise Unsupported('R30: iter_mut element used other than as *' + w)
            n += 1
            body2 = re.sub(r'\*' + re.escape(w) + r'\b', f'{x}[{i}]', body)
            text = (text[:ms.start()] + f'{ind}for {i} in (if {cnt} < {x}.len() {{ {cnt} }} else {{ {x}.len() }})..{x}.len() {{' + body2 + text[toks[cb].start:])
            continue
        # `.take(N).enumerate()` numbers the same elements as `.enumerate().take(N)`
        m = re.search(r'(?m)^([ \t]*)for \((\w+), (\w+)\) in (\w+)\.iter_mut\(\)(?:\.enumerate\(\)\.take\((\w+)\)|\.take\((\w+)\)\.enumerate\(\)) \{[ \t]*$', text)
        if not m:
            return text, n
        ind, i, w, x, cnt, cnt2 = m.groups()
        cnt = cnt or cnt2
        toks = lex(text)
        ob = max(k for k, t in enumerate(toks) if t.text == '{' and t.end <= m.end())
        cb = match_close(toks, ob)
        body = text[toks[ob].end:toks[cb].start]
        if re.search(r'(?<![*\w])' + re.escape(w) + r'\b', body):
            raise Unsupported('R30: iter_mut element used other than as *' + w)
        n += 1
        body2 = re.sub(r'\*' + re.escape(w) + r'\b', f'{x}[{i}]', body)
        text = (text[:m.start()] + f'{ind}for {i} in 0..(if {cnt} < {x}.len() {{ {cnt} }} else {{ {x}.len() }}) {{' + body2 + text[toks[cb].start:])


def r31_iter_mut_enum_fields(text):
    """`for G in X.iter_mut() { let (A, B) = match G { C1(A, B) => (A, B), C2(A, B) => (A, B), }; BODY }` with A, B used in BODY only as
    `*A`, `*B` => `for m__N in 0..X.len() { let (mut A, mut B) = match X[m__N] { C1(A, B) => (A, B), C2(A, B) => (A, B), }; BODY[*A := A,
    *B := B] X[m__N] = match X[m__N] { C1(_, _) => C1(A, B), C2(_, _) => C2(A, B), }; }`: the two mutable field borrows become mutable
    copies that are written back to the element at the end of the body (Verus cannot specify IterMut nor borrows into enum fields)."""
    n = 0
    while True:
        m = re.search(r'(?m)^([ \t]*)for (\w+) in ((?:\w+\.)*\w+)\.iter_mut\(\) \{[ \t]*\n([ \t]*)let \((\w+), (\w+)\) = match \2 \{((?:\s*[\w:]+\(\5, \6\) => \(\5, \6\),)+)\s*\};', text)
        if not m:
            return text, n
        ind, g, x, ind2, a, b, arms = m.groups()
        toks = lex(text)
        ob = next(k for k, t in enumerate(toks) if t.text == '{' and t.start >= m.start() and t.end <= m.start() + len(m.group(0)) and text[t.start - 1] == ' ' and toks[k - 1].text == ')')
        cb = match_close(toks, ob)
        body = text[m.end():toks[cb].start]
        for v in (a, b):
            if re.search(r'(?<![*\w])' + re.escape(v) + r'\b', body):
                raise Unsupported('R31: field borrow used other than as *' + v)
        ctors = re.findall(r'([\w:]+)\(' + a + ', ' + b + r'\) =>', arms)
        n += 1
        i = f'm__{n}'
        body2 = re.sub(r'\*(' + re.escape(a) + '|' + re.escape(b) + r')\b', r'\1', body)
        head = m.group(0)
        head2 = head.replace(f'for {g} in {x}.iter_mut() {{', f'for {i} in 0..{x}.len() {{', 1)
        head2 = head2.replace(f'let ({a}, {b}) = match {g} {{', f'let (mut {a}, mut {b}) = match {x}[{i}] {{', 1)
        wb = f'{x}[{i}] = match {x}[{i}] {{ ' + ' '.join(f'{c}(_, _) => {c}({a}, {b}),' for c in ctors) + ' }; '
        text = text[:m.start()] + head2 + body2.rstrip(' \t') + wb + text[toks[cb].start:]


def r32_iter_mut_plain(text):
    """`for W in X.iter_mut() { .. *W .. }` (X a field path, W only used as `*W`) => `for u__N in 0..X.len() { .. X[u__N] .. }`"""
    n = 0
    while True:
        m = re.search(r'(?m)^([ \t]*)for (\w+) in ((?:\w+\.)*\w+)\.iter_mut\(\) \{[ \t]*$', text)
        if not m:
            return text, n
        ind, w, x = m.groups()
        toks = lex(text)
        ob = max(k for k, t in enumerate(toks) if t.text == '{' and t.end <= m.end())
        cb = match_close(toks, ob)
        body = text[toks[ob].end:toks[cb].start]
        if re.search(r'(?<![*\w])' + re.escape(w) + r'\b', body):
            raise Unsupported('R32: iter_mut element used other than as *' + w)
        n += 1
        i = f'u__{n}'
        body2 = re.sub(r'\*' + re.escape(w) + r'\b', f'{x}[{i}]', body)
        text = text[:m.start()] + f'{ind}for {i} in 0..{x}.len() {{' + body2 + text[toks[cb].start:]


def r22b_extend_array_iter(text):
    """`V.extend(X.iter());` (X an array of usize) => `vec_extend_arr(&mut V, &X);` (a verified loop of pushes defined in the template)."""
    n = 0
    while True:
        m = re.search(r'(?m)^([ \t]*)(\w+)\.extend\(((?:\w+\.)*\w+)\.iter\(\)\);[ \t]*$', text)
        if not m:
            return text, n
        n += 1
        ind, v, x = m.groups()
        text = text[:m.start()] + f'{ind}vec_extend_arr(&mut {v}, &{x});' + text[m.end():]


def r16b_into_iter_map_block_collect(text):
    """tail expression `X .into_iter() .map(|V| { BLOCK }) .collect()` (one segment per line, X a Vec of a Copy type), also bound by
    `let NAME = ..;` => `let mut o__bN = Vec::new(); for b__N in 0..X.len() { let V = X[b__N]; o__bN.push({ BLOCK }); } o__bN`
    (resp. `.. let NAME = o__bN;`)"""
    n = 0
    while True:
        m = re.search(r'(?m)^([ \t]*)(?:let (\w+) = )?(\w+)\s*\.into_iter\(\)\s*\.map\(\|(\w+)\| \{', text)
        if not m:
            return text, n
        ind, name, x, v = m.groups()
        toks = lex(text)
        ob = next(k for k, t in enumerate(toks) if t.text == '{' and t.end == m.end())
        cb = match_close(toks, ob)
        rest = text[toks[cb].end:]
        m2 = re.match(r'\)\s*\.collect\(\)' + (r';' if name else ''), rest)
        if not m2:
            raise Unsupported('R16b: map(..) is not followed by .collect()')
        n += 1
        i = f'b__{n}'
        block = text[toks[ob].start:toks[cb].end]
        nl_head = text[m.start():toks[ob].start].count('\n')
        nl_tail = m2.group(0).count('\n')
        fin = f' let {name} = o__b{n};' if name else f' o__b{n}'
        new = (f'{ind}let mut o__b{n} = Vec::new(); for {i} in 0..{x}.len() {{ let {v} = {x}[{i}]; ' + '\n' * nl_head + f'o__b{n}.push(' + block + '); }' + '\n' * nl_tail + fin)
        text = text[:m.start()] + new + rest[m2.end():]


def r0b_dead_const_block(text):
    """option dead=NAME of the //@fn line (weave checks that the source declares `const NAME: bool = false;`): a statement
    `if NAME && COND { .. }` is dropped (dead code: statistics output through println!, which Verus cannot ingest)."""
    names = [x for x in getattr(_TL, 'opts', {}).get('dead', '').split('+') if x]
    n = 0
    for name in names:
        while True:
            m = re.search(r'(?m)^[ \t]*if ' + re.escape(name) + r' && [^{\n]*\{[ \t]*$', text)
            if not m:
                break
            toks = lex(text)
            ob = max(k for k, t in enumerate(toks) if t.text == '{' and t.end <= m.end())
            cb = match_close(toks, ob)
            seg = text[m.start():toks[cb].end]
            n += 1
            text = text[:m.start()] + '\n' * seg.count('\n') + text[toks[cb].end:]
    return text, n


def r33_extend_map_closure(text):
    """`V.extend(X.into_iter().map(F));` (X a Vec / field path of a Copy element type, F a closure variable) =>
    `for e__N in 0..X.len() { V.push(F(X[e__N])); }`"""
    n = 0
    while True:
        m = re.search(r'(?m)^([ \t]*)(\w+)\.extend\(((?:\w+\.)*\w+)\.into_iter\(\)\.map\((\w+)\)\);[ \t]*$', text)
        if not m:
            return text, n
        n += 1
        ind, v, x, f = m.groups()
        i = f'e__{n}'
        text = text[:m.start()] + f'{ind}for {i} in 0..{x}.len() {{ {v}.push({f}({x}[{i}])); }}' + text[m.end():]


def r34_extend_array_call(text):
    """`V.extend(F(ARG));` (also with the argument on its own line; F a closure variable returning a `[usize; 32]`) =>
    `{ let a__N = F(ARG); vec_extend_arr(&mut V, &a__N); }`"""
    n = 0
    while True:
        m = re.search(r'(?m)^([ \t]*)(\w+)\.extend\((\w+)\(\s*((?:\w+\.)*\w+),?\s*\)\);[ \t]*$', text)
        if not m:
            return text, n
        n += 1
        ind, v, f, arg = m.groups()
        nl = text[m.start():m.end()].count('\n')
        text = text[:m.start()] + f'{ind}{{ let a__{n} = {f}({arg}); vec_extend_arr(&mut {v}, &a__{n}); }}' + '\n' * nl + text[m.end():]


def r35_closure_shapes(text):
    """closures get a block body and immutable parameters so that Verus can attach a contract: `|ARGS| match X { .. }` =>
    `|ARGS| { match X { .. } }`; `|mut P: T| -> R { BODY }` => `|P__0: T| -> R { let mut P = P__0; BODY }`"""
    n = 0
    while True:
        m = re.search(r'= \|(\w+): (\w+)\| match \1 \{', text)
        if not m:
            break
        toks = lex(text)
        ob = next(k for k, t in enumerate(toks) if t.text == '{' and t.end == m.end())
        cb = match_close(toks, ob)
        n += 1
        text = text[:m.start()] + f'= |{m.group(1)}: {m.group(2)}| {{ match {m.group(1)} {{' + text[m.end():toks[cb].end] + ' }' + text[toks[cb].end:]
    while True:
        m = re.search(r'\|mut (\w+): ([^|]+)\| -> ([^{]+)\{', text)
        if not m:
            break
        n += 1
        pnm, ty, rt = m.groups()
        text = text[:m.start()] + f'|{pnm}__0: {ty}| -> {rt}{{ let mut {pnm} = {pnm}__0;' + text[m.end():]
    return text, n


def r36_chain_collect(text):
    """iterator chains of `specialize` over the opaque tail iterator T (R11): `X.into_iter().chain(T).collect()` =>
    `chain_collect(X, T)`; `X.iter().cloned().chain(T).collect()` => `chain_collect_cloned(X, T)`; `X .iter() .map(|(_, P)| P.clone())
    .chain(T) .collect()` (one segment per line) => `chain_collect_second(X, T)`: external_body helpers of the template whose trusted
    contract is "the elements of X (resp. their clones / the clones of their second components), followed by the collected tail"."""
    n = 0
    for rx, fn in ((r'\b(\w+)\.into_iter\(\)\.chain\((\w+)\)\.collect\(\)', 'chain_collect'),
                   (r'\b(\w+)\.iter\(\)\.cloned\(\)\.chain\((\w+)\)\.collect\(\)', 'chain_collect_cloned'),
                   (r'\b(\w+)\s*\.iter\(\)\s*\.map\(\|\(_, (\w+)\)\| \2\.clone\(\)\)\s*\.chain\((\w+)\)\s*\.collect\(\)', 'chain_collect_second')):
        while True:
            m = re.search(rx, text)
            if not m:
                break
            n += 1
            x, t = m.group(1), m.groups()[-1]
            nl = m.group(0).count('\n')
            text = text[:m.start()] + f'{fn}({x}, {t})' + '\n' * nl + text[m.end():]
    return text, n


def r37_opt_slice(text):
    """`X.as_deref().unwrap_or_default()` (X an `&Option<Vec<T>>`) => `opt_slice(X)`: an external_body helper of the template (trusted
    contract: the vector's elements, or none for `None`)."""
    n = 0
    while True:
        m = re.search(r'\b(\w+)\.as_deref\(\)\.unwrap_or_default\(\)', text)
        if not m:
            return text, n
        n += 1
        text = text[:m.start()] + f'opt_slice({m.group(1)})' + text[m.end():]


def r38_or_pattern_guard(text):
    """match arm `P1 | P2 if G => { BODY }` (Verus: an arm with both an or-pattern and a guard is not supported) =>
    `P1 if G => { BODY } P2 if G => { BODY }` (the second copy is put on the closing line of the first, without line breaks)."""
    n = 0
    while True:
        m = re.search(r'(?m)^([ \t]*)([A-Za-z_][\w:]*\([^()|]*\))\s*\n?\s*\| ([A-Za-z_][\w:]*\([^()|]*\))\s*\n?\s*if ([^{}\n]+?) =>\s*\n?\s*\{', text)
        if not m:
            return text, n
        toks = lex(text)
        ob = next(k for k, t in enumerate(toks) if t.text == '{' and t.end == m.end())
        cb = match_close(toks, ob)
        body = text[toks[ob].start:toks[cb].end]
        # the second copy goes on one line, rebuilt from the tokens (comments are not tokens)
        parts = [toks[ob].text]
        for q in range(ob + 1, cb + 1):
            gap = text[toks[q - 1].end:toks[q].start]
            parts.append(' ' if ('//' in gap or '/*' in gap) else re.sub(r'\s+', ' ', gap))
            parts.append(toks[q].text)
        body_nc = ''.join(parts)
        ind, p1, p2, g = m.groups()
        n += 1
        head = text[m.start():m.end()]
        # keep the line structure of the original head for the first arm: replace `| P2` by nothing
        head1 = re.sub(r'\| ' + re.escape(p2), '', head, count=1)
        flat = ' '.join(body_nc.split())
        after = text[toks[cb].end:]
        after = after[1:] if after.startswith(',') else after
        text = text[:m.start()] + head1 + text[m.end():toks[cb].end] + f' {p2} if {g.strip()} => {flat}' + after


def r39_find_by_name(text):
    """`X.iter().find(|(N, _)| N == K)` => `find_by_name(X, K)`: an external_body helper of the template whose trusted contract is that of
    Iterator::find for this predicate (the first pair whose first component equals K, if any)."""
    n = 0
    while True:
        m = re.search(r'\b(\w+)\.iter\(\)\.find\(\|\((\w+), _\)\| \2 == (\w+)\)', text)
        if not m:
            return text, n
        n += 1
        text = text[:m.start()] + f'find_by_name({m.group(1)}, {m.group(3)})' + text[m.end():]


def r40_once_chain_collect(text):
    """`std::iter::once(X).chain(T).collect()` => `once_chain_collect(X, T)`; `A\n.iter()\n.zip(B.into_iter())\n.map(|((N, _), P)| (N.clone(), P))
    \n.collect()` => `zip_names(A, B)`: external_body helpers of the template (trusted contracts: X followed by the elements of the vector T;
    the pairs (first component of A[k], B[k]) for k below the shorter length).  Line breaks inside the chain are kept."""
    n = 0
    for rx, fn in ((r'\bstd::iter::once\((\w+)\)\s*\.chain\((\w+)\)\s*\.collect\(\)', 'once_chain_collect'),
                   (r'\b(\w+)\s*\.iter\(\)\s*\.zip\((\w+)\.into_iter\(\)\)\s*\.map\(\|\(\((\w+), _\), (\w+)\)\| \(\3\.clone\(\), \4\)\)\s*\.collect\(\)', 'zip_names')):
        while True:
            m = re.search(rx, text)
            if not m:
                break
            n += 1
            nl = m.group(0).count('\n')
            text = text[:m.start()] + f'{fn}({m.group(1)}, {m.group(2)})' + '\n' * nl + text[m.end():]
    return text, n


def r41_rev_index_loops(text):
    """`for X in V.iter().rev() {` => `let mut r__N = V.len(); while r__N > 0 { r__N -= 1; let X = &V[r__N];` and the `iter_mut()` form with
    `let X = &mut V[r__N];` (V a field path; Verus has no specification of Rev): the elements are visited from the last to the first.
    The rewritten header stays on the line of the `for`."""
    n = 0
    while True:
        m = re.search(r'(?m)^([ \t]*)for (\w+) in ((?:\w+\.)*\w+)\.(iter|iter_mut)\(\)\.rev\(\) \{[ \t]*$', text)
        if not m:
            return text, n
        n += 1
        ind, x, v, how = m.groups()
        i = f'r__{n}'
        amp = '&mut ' if how == 'iter_mut' else '&'
        text = text[:m.start()] + f'{ind}let mut {i} = {v}.len(); while {i} > 0 {{ {i} -= 1; let {x} = {amp}{v}[{i}];' + text[m.end():]


def r42_entry_occupied_insert(text):
    """`if let Entry::Occupied(mut E) = S.entry(K.clone()) {` followed by the statement `E.insert(B);` => `if S.contains_key(&K) {` and
    `S.insert(K.clone(), B);` (vstd has no specification of the BTreeMap entry API; std documents `Entry::Occupied` as "the key is present" and
    `OccupiedEntry::insert` as "sets the value of the entry")."""
    n = 0
    while True:
        m = re.search(r'if let Entry::Occupied\(mut (\w+)\) = (\w+)\.entry\((\w+)\.clone\(\)\) \{(\s*)\1\.insert\((\w+)\);', text)
        if not m:
            return text, n
        n += 1
        e, sc, k, ws, b = m.groups()
        text = text[:m.start()] + f'if {sc}.contains_key(&{k}) {{{ws}{sc}.insert({k}.clone(), {b});' + text[m.end():]


def r43_env_top_level(text):
    """`Env(vec![E.0[0].clone()])` => `env_top_level(&E)`: an external_body helper of the template standing for "an environment that consists of
    (a copy of) the outermost scope of E" (the environment is an opaque stand-in in the units that lift arms of compile; that E has an outermost
    scope - Env::new creates one, pushes and pops are paired - is not checked there)."""
    n = 0
    while True:
        m = re.search(r'\bEnv\(vec!\[(\w+)\.0\[0\]\.clone\(\)\]\)', text)
        if not m:
            return text, n
        n += 1
        text = text[:m.start()] + f'env_top_level(&{m.group(1)})' + text[m.end():]


def r44_positions_map(text):
    """`X\n.iter()\n.copied()\n.enumerate()\n.map(|(P, G)| (G, P))\n.collect()` => `positions_by_value(&X)`: an external_body helper of the template
    (trusted contract of collecting (value, index) pairs into a HashMap: the keys are the elements of X, each mapped to the LAST index at which
    it occurs).  Line breaks inside the chain are kept."""
    n = 0
    while True:
        m = re.search(r'\b(\w+)\s*\.iter\(\)\s*\.copied\(\)\s*\.enumerate\(\)\s*\.map\(\|\((\w+), (\w+)\)\| \(\3, \2\)\)\s*\.collect\(\)', text)
        if not m:
            return text, n
        n += 1
        nl = m.group(0).count('\n')
        text = text[:m.start()] + f'positions_by_value(&{m.group(1)})' + '\n' * nl + text[m.end():]


def r10_windows2(text):
    """`for W in X.windows(2) {` => `for w__N in 0..(if X.len() >= 2 { X.len() - 1 } else { 0 }) { let W = [X[w__N], X[w__N + 1]];`
    (Verus has no specification of slice::Windows; for Copy elements W[0], W[1] read the same values)."""
    n = 0
    while True:
        m = re.search(r'(?m)^(\s*)for (\w+) in ([A-Za-z_][A-Za-z0-9_.]*)\.windows\(2\) \{[ \t]*$', text)
        if not m:
            return text, n
        n += 1
        ind, w, x = m.groups()
        i = f'w__{n}'
        new = f'{ind}for {i} in 0..(if {x}.len() >= 2 {{ {x}.len() - 1 }} else {{ 0 }}) {{ let {w} = [{x}[{i}], {x}[{i} + 1]];'
        text = text[:m.start()] + new + text[m.end():]


def r11_collect(text):
    """`IDENT.collect()` => `iter_collect(IDENT)`: the iterator adapter chain bound to IDENT is not modelled by Verus; the template
    declares `iter_collect` as an external_body function whose contract is the trusted specification of collecting that iterator."""
    n = 0
    while True:
        m = re.search(r'\b([a-z_][A-Za-z0-9_]*)\.collect\(\)', text)
        if not m:
            return text, n
        n += 1
        text = text[:m.start()] + f'iter_collect({m.group(1)})' + text[m.end():]


def r7_param_patterns(text):
    """`fn f(.., StructPat { a: x, b: y }: &T, ..) {` => `fn f(.., p__1: &T, ..) { let StructPat { a: x, b: y } = p__1;`
    (Verus: function inputs must be identifiers)."""
    toks = lex(text)
    # locate `fn name (`
    k = 0
    while k < len(toks) and not (toks[k].kind == 'ident' and toks[k].text == 'fn'):
        k += 1
    if k >= len(toks):
        return text, 0
    j = k
    while toks[j].text != '(':
        j += 1
    close = match_close(toks, j)
    params = _split_commas(toks, j, close)
    edits, lets, n = [], [], 0
    for (a, b) in params:
        if toks[a].kind == 'ident' and toks[a].text[0].isupper() and a + 1 <= b and toks[a + 1].text in ('{', '('):
            pc = match_close(toks, a + 1)
            if toks[pc + 1].text != ':':
                continue
            n += 1
            name = f'p__{n}'
            pat = text[toks[a].start:toks[pc].end]
            nl = pat.count('\n')
            edits.append((toks[a].start, toks[pc].end, name + '\n' * nl))
            lets.append(f" let {' '.join(pat.split())} = {name};")
    if not n:
        return text, 0
    bo = _find_block_open(toks, close + 1)
    edits.append((toks[bo].end, toks[bo].end, ''.join(lets)))
    return _apply_edits(text, edits), n


RULES = [('R0', r0_visibility_and_stats), ('R1', r1_ref_patterns), ('R7', r7_param_patterns), ('R28', r28_mut_self), ('R8', r8_assert_eq), ('R9', r9_subslice_copy), ('R10', r10_windows2), ('R38', r38_or_pattern_guard), ('R36', r36_chain_collect), ('R39', r39_find_by_name), ('R40', r40_once_chain_collect), ('R41', r41_rev_index_loops), ('R42', r42_entry_occupied_insert), ('R43', r43_env_top_level), ('R44', r44_positions_map), ('R37', r37_opt_slice), ('R11', r11_collect), ('R12', r12_subslice_to_subslice), ('R13', r13_copied_take), ('R15', r15_iter_all_eq), ('R16', r16_map_collect_tail), ('R17', r17_match_arm_ref_guard), ('R18', r18_bool_bitand), ('R20', r20_iter_skip), ('R21', r21_let_map_collect), ('R21b', r21b_let_chain_map_collect), ('R29', r29_map_index), ('R22b', r22b_extend_array_iter), ('R33', r33_extend_map_closure), ('R34', r34_extend_array_call), ('R22', r22_vec_extend), ('R23', r23_range_copy), ('R24', r24_opaque_iter), ('R25', r25_iter_sum), ('R26', r26_slice_iters), ('R27', r27_add_assign_ref), ('R30', r30_iter_mut_enumerate_take), ('R0b', r0b_dead_const_block), ('R35', r35_closure_shapes), ('R31', r31_iter_mut_enum_fields), ('R32', r32_iter_mut_plain), ('R16b', r16b_into_iter_map_block_collect),
         ('R2', r2_array_literal_loops), ('R3', r3_zip_enumerate)]


def desugar(text, rules=None):
    counts = {}
    for name, fn in RULES:
        if rules is not None and name not in rules:
            continue
        text, k = fn(text)
        counts[name] = k
    return text, counts
