#!/bin/bash
# re-run every recorded seed against the current checks (evidence of the clean tree is preserved)
cd /verif
rm -rf /tmp/w/evidence_saved && cp -r evidence /tmp/w/evidence_saved
for d in seeded/*/; do
  id=$(basename $d); prop=${id%%-*}
  git -C /repo apply /verif/$d/patch.diff 2>/dev/null || { echo "$id: PATCH DOES NOT APPLY"; git -C /repo checkout -- .; continue; }
  ./check $prop quick > /tmp/w/reseed_$id.txt 2>&1; ec=$?
  git -C /repo checkout -- .
  echo "$id: exit=$ec $(grep -c 'failed obligation' /tmp/w/reseed_$id.txt) failed obligations; $(grep -E '^VIOLATION' /tmp/w/reseed_$id.txt | head -1 | cut -c1-120)"
done
rm -rf evidence && cp -r /tmp/w/evidence_saved evidence
