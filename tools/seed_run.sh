#!/bin/bash
# usage: seed_run.sh <worktree> <seed-id> <property> [tier]
# Confirms a seeded change in its scratch worktree (suite passes with it; demo fails with it, passes without),
# then applies it to /repo, runs the property's check, and undoes it.  Writes /verif/seeded/<seed-id>/.
set -u
WT=$1; ID=$2; PROP=$3; TIER=${4:-quick}
OUT=/verif/seeded/$ID; mkdir -p $OUT
cd $WT || exit 2
git diff -- src > $OUT/patch.diff
[ -s $OUT/patch.diff ] || cp patch.diff $OUT/patch.diff
cp tests/seed_demo.rs $OUT/seed_demo.rs 2>/dev/null
export CARGO_TARGET_DIR=$WT/target
echo "== demo with change"; cargo test --offline --test seed_demo 2>&1 | grep -E "^test result|error\[" | head -3 | tee $OUT/demo_with.txt
echo "== suite with change"; mv tests/seed_demo.rs /tmp/seed_demo_$ID.rs; cargo test --offline 2>&1 | grep -E "^test result" | awk '{p+=$4; f+=$6} END {print "passed=" p " failed=" f}' | tee $OUT/suite_with.txt; mv /tmp/seed_demo_$ID.rs tests/seed_demo.rs
echo "== demo without change"; git stash push -q -- src; cargo test --offline --test seed_demo 2>&1 | grep -E "^test result|error\[" | head -3 | tee $OUT/demo_without.txt; git stash pop -q
unset CARGO_TARGET_DIR
echo "== check $PROP on /repo with the change"
cd /repo && git apply $OUT/patch.diff || { echo "patch does not apply to /repo"; exit 2; }
# (the evidence file of the property is saved and restored: evidence must describe the unchanged tree)
cp /verif/evidence/$PROP.json /tmp/evidence_$PROP.saved 2>/dev/null
cd /verif && ./check $PROP $TIER > $OUT/check_$PROP.txt 2>&1; echo "exit=$?" | tee -a $OUT/check_$PROP.txt
git -C /repo checkout -- .
mv /tmp/evidence_$PROP.saved /verif/evidence/$PROP.json 2>/dev/null
grep -E "VIOLATION|failed obligation|UNDECIDED|exit=" $OUT/check_$PROP.txt | cut -c1-220
cp /verif/replays/$PROP.replay.txt $OUT/replay_$PROP.txt 2>/dev/null
