"""Runs one Verus unit: weave from /repo's current sources, run verus, map results to obligations."""
import json
import os
import re
import subprocess
import sys
import time

sys.path.insert(0, os.path.dirname(os.path.abspath(__file__)))
from weave import process_template, scan_assumptions, WeaveError  # noqa: E402

VERIF = os.path.dirname(os.path.dirname(os.path.abspath(__file__)))

REFUTATION_MARKERS = (
    'postcondition not satisfied', 'precondition not satisfied', 'invariant not satisfied',
    'assertion failed', 'possible arithmetic underflow/overflow', 'decreases not satisfied',
    'possible division by zero', 'possible bit shift underflow/overflow', 'unreachable',
    'recommendation not met', 'index out of bounds', 'could not prove termination',
    'failed to prove', 'unable to prove', 'assertion not satisfied', 'constructed value may fail',
)
UNDECIDED_MARKERS = ('Resource limit (rlimit) exceeded', 'rlimit', 'timed out', 'solver')

TAG_RE = re.compile(r'\[(C\d{2,3}):([A-Za-z0-9_.\-]+)\]')
REACH_MARK = 'assert(false); // [reach]'


class UnitResult:
    def __init__(self, name):
        self.name = name
        self.status = 'error'      # ok | refuted | undecided | error
        self.detail = ''
        self.functions = {}        # verus function name -> dict(success, time_ms, rlimit)
        self.errors = []           # refutations / undecided errors
        self.meta = None
        self.assumptions = []
        self.wall_s = 0.0
        self.cmd = ''
        self.text = ''
        self.verified = 0
        self.reach = None          # dict fn -> 'reachable' | 'VACUOUS'
        self.verus_version = ''

    def fn_of_line(self, line):
        for f in self.meta['fns']:
            if f['out_first'] <= line <= f['out_last']:
                return f
        return None


def _classify(msg):
    for m in ('Resource limit (rlimit) exceeded',):
        if m in msg:
            return 'undecided'
    low = msg.lower()
    for m in REFUTATION_MARKERS:
        if m in low:
            return 'refuted'
    return 'error'


def _run_verus(path, rlimit, workdir, extra=()):
    cmd = ['verus', os.path.basename(path), '--triggers-mode', 'silent', '--rlimit', str(rlimit),
           '--output-json', '--time', '--error-format=json', '--multiple-errors', '4'] + list(extra)
    t0 = time.time()
    p = subprocess.run(cmd, cwd=workdir, stdout=subprocess.PIPE, stderr=subprocess.PIPE, text=True)
    return cmd, p, time.time() - t0


def run_unit(name, repo, workdir, reach=False, timeout=None):
    res = UnitResult(name)
    res.repo = repo
    tmpl = os.path.join(VERIF, 'contracts', name + '.rs.tmpl')
    t0 = time.time()
    try:
        text, meta = process_template(tmpl, repo)
    except WeaveError as e:
        res.status, res.detail = 'error', f'weave: {e}'
        return res
    res.meta = meta
    res.text = text
    res.assumptions = scan_assumptions(text)
    rlimit = meta['unit'].get('rlimit', '100')
    os.makedirs(workdir, exist_ok=True)
    path = os.path.join(workdir, name + '.rs')
    with open(path, 'w') as f:
        f.write(text)
    cmd, p, wall = _run_verus(path, rlimit, workdir)
    res.cmd = ' '.join(cmd)
    _parse(res, p, text)
    if reach and res.status in ('ok', 'refuted'):
        res.reach = run_reach(res, workdir)
    res.wall_s = time.time() - t0
    return res


def _parse(res, p, text):
    lines = text.split('\n')
    try:
        out = json.loads(p.stdout)
    except json.JSONDecodeError:
        res.status, res.detail = 'error', 'verus produced no JSON: ' + p.stderr[-2000:]
        return
    vr = out.get('verification-results', {})
    res.verified = vr.get('verified', 0)
    res.verus_version = out.get('verus', {}).get('version', '')
    try:
        for m in out['times-ms']['smt']['smt-run-module-times']:
            for f in m.get('function-breakdown', []):
                res.functions[f['function']] = dict(success=f['success'], time_ms=f['time'], rlimit=f.get('rlimit'),
                                                    mode=f.get('mode:'))
    except KeyError:
        pass
    diags = []
    for l in p.stderr.split('\n'):
        l = l.strip()
        if not l.startswith('{'):
            continue
        try:
            j = json.loads(l)
        except json.JSONDecodeError:
            continue
        if j.get('level') == 'error' and j.get('spans'):
            diags.append(j)
        elif j.get('level') == 'error' and 'aborting' not in j.get('message', ''):
            diags.append(j)
    hard = []
    for j in diags:
        kind = _classify(j['message'])
        spans = []
        for s in j.get('spans', []):
            ln = s['line_start']
            org = res.meta['origin'][ln - 1] if 0 < ln <= len(res.meta['origin']) else None
            spans.append(dict(line=ln, label=s.get('label'), primary=s.get('is_primary'), origin=org,
                              text=lines[ln - 1].strip()[:300] if 0 < ln <= len(lines) else ''))
        tags = []
        for s in spans:
            tags += TAG_RE.findall(s['text'])
        fn = None
        # the function in which the failure occurs = the one containing the primary span, except for
        # postconditions (primary = the clause) where every span lies in the same function anyway
        for s in sorted(spans, key=lambda s: not s['primary']):
            f = res.fn_of_line(s['line'])
            if f is not None:
                fn = f
                if not ('precondition' in j['message'] and s['label'] == 'failed precondition'):
                    break
        if 'precondition not satisfied' in j['message']:
            # attribute to the caller (primary span)
            for s in spans:
                if s['primary']:
                    f = res.fn_of_line(s['line'])
                    if f is not None:
                        fn = f
        e = dict(kind=kind, message=j['message'], fn=fn['path'] if fn else None,
                 fn_props=fn['props'] if fn else [], tags=sorted(set(tags)), spans=spans,
                 rendered=j.get('rendered', '')[:4000])
        if kind == 'error':
            hard.append(e)
        else:
            res.errors.append(e)
    if hard:
        res.status = 'error'
        res.detail = 'verus rejected the unit: ' + hard[0]['rendered'][:1500]
        return
    if vr.get('encountered-vir-error') or (vr.get('encountered-error') and not res.errors):
        res.status, res.detail = 'error', 'verus error without diagnostics: ' + p.stderr[-1500:]
        return
    if not vr.get('success'):
        if any(e['kind'] == 'refuted' for e in res.errors):
            res.status = 'refuted'
        else:
            res.status = 'undecided'
            res.detail = '; '.join(e['message'] for e in res.errors)[:500]
        return
    if res.verified == 0:
        res.status, res.detail = 'error', 'zero obligations verified'
        return
    res.status = 'ok'


def run_reach(res, workdir):
    """Vacuity guard: with `assert(false)` as the first body statement of every contracted function the
    verifier must fail to prove it; a function in which it is proved has a contradictory precondition."""
    tmpl = os.path.join(VERIF, 'contracts', res.name + '.rs.tmpl')
    text, meta = process_template(tmpl, res.repo, reach=True)
    lines = text.split('\n')
    marks = {}
    for i, l in enumerate(lines, 1):
        m = re.search(r'// \[reach:([^\]]+)\]', l)
        if m:
            marks[i] = m.group(1)
    path = os.path.join(workdir, res.name + '_reach.rs')
    with open(path, 'w') as fh:
        fh.write(text)
    cmd = ['verus', os.path.basename(path), '--triggers-mode', 'silent', '--rlimit', '20', '--output-json',
           '--error-format=json', '--multiple-errors', '0', '--no-auto-recommends-check']
    p = subprocess.run(cmd, cwd=workdir, stdout=subprocess.PIPE, stderr=subprocess.PIPE, text=True)
    failed_lines = set()
    rlimit_fns = set()
    for l in p.stderr.split('\n'):
        l = l.strip()
        if l.startswith('{'):
            try:
                j = json.loads(l)
            except json.JSONDecodeError:
                continue
            if j.get('level') != 'error':
                continue
            for s in j.get('spans', []):
                failed_lines.add(s['line_start'])
                if 'rlimit' in j.get('message', ''):
                    for f in meta['fns']:
                        if f['out_first'] <= s['line_start'] <= f['out_last']:
                            rlimit_fns.add(f['path'])
    reach = {}
    for ln, fn in marks.items():
        reach[fn] = 'reachable' if (ln in failed_lines or fn in rlimit_fns) else 'VACUOUS'
    return reach
