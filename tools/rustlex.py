"""Minimal Rust lexer + item locator used by the extractor.

Only what is needed to copy item text verbatim and to find matching delimiters:
comments (nested block comments), string / raw-string / byte-string / char literals,
lifetimes, identifiers, numbers and punctuation.  Positions are byte offsets into the
(decoded) source string.
"""
import re

IDENT_RE = re.compile(r'[A-Za-z_][A-Za-z0-9_]*')
NUM_RE = re.compile(r'[0-9][0-9A-Za-z_]*(\.[0-9][0-9A-Za-z_]*)?')


class Tok:
    __slots__ = ('kind', 'text', 'start', 'end')

    def __init__(self, kind, text, start, end):
        self.kind, self.text, self.start, self.end = kind, text, start, end

    def __repr__(self):
        return f'Tok({self.kind},{self.text!r},{self.start})'


class LexError(Exception):
    pass


def lex(src, keep_comments=False):
    toks = []
    i, n = 0, len(src)
    while i < n:
        c = src[i]
        if c.isspace():
            i += 1
            continue
        if src.startswith('//', i):
            j = src.find('\n', i)
            j = n if j < 0 else j
            if keep_comments:
                toks.append(Tok('comment', src[i:j], i, j))
            i = j
            continue
        if src.startswith('/*', i):
            depth, j = 1, i + 2
            while j < n and depth:
                if src.startswith('/*', j):
                    depth += 1
                    j += 2
                elif src.startswith('*/', j):
                    depth -= 1
                    j += 2
                else:
                    j += 1
            if depth:
                raise LexError('unterminated block comment')
            if keep_comments:
                toks.append(Tok('comment', src[i:j], i, j))
            i = j
            continue
        # raw strings  r"..." r#"..."#  br#"..."#
        m = re.match(r'(b|c)?r(#*)"', src[i:i + 40])
        if m:
            hashes = m.group(2)
            close = '"' + hashes
            j = src.find(close, i + m.end())
            if j < 0:
                raise LexError('unterminated raw string')
            j += len(close)
            toks.append(Tok('str', src[i:j], i, j))
            i = j
            continue
        if c == '"' or (c in 'bc' and i + 1 < n and src[i + 1] == '"'):
            j = i + (1 if c == '"' else 2)
            while j < n and src[j] != '"':
                j += 2 if src[j] == '\\' else 1
            if j >= n:
                raise LexError('unterminated string')
            j += 1
            toks.append(Tok('str', src[i:j], i, j))
            i = j
            continue
        if c == "'" or (c == 'b' and i + 1 < n and src[i + 1] == "'"):
            k = i + (1 if c == "'" else 2)
            # char literal or lifetime
            if k < n and src[k] == '\\':
                j = src.find("'", k + 2)
                if j < 0:
                    raise LexError('unterminated char')
                toks.append(Tok('char', src[i:j + 1], i, j + 1))
                i = j + 1
                continue
            if k + 1 < n and src[k + 1] == "'":
                toks.append(Tok('char', src[i:k + 2], i, k + 2))
                i = k + 2
                continue
            m = IDENT_RE.match(src, k)
            if m and c == "'":
                toks.append(Tok('lifetime', src[i:m.end()], i, m.end()))
                i = m.end()
                continue
            raise LexError(f'bad quote at {i}')
        m = IDENT_RE.match(src, i)
        if m:
            toks.append(Tok('ident', m.group(0), i, m.end()))
            i = m.end()
            continue
        m = NUM_RE.match(src, i)
        if m:
            # do not swallow `0..n`
            t = m.group(0)
            if '.' in t and src.startswith('..', i + t.index('.')):
                t = t[:t.index('.')]
            toks.append(Tok('num', t, i, i + len(t)))
            i += len(t)
            continue
        toks.append(Tok('punct', c, i, i + 1))
        i += 1
    return toks


OPEN = {'(': ')', '[': ']', '{': '}'}
CLOSE = {')', ']', '}'}


def match_close(toks, k):
    """toks[k] is an opening delimiter; return index of its matching close."""
    assert toks[k].text in OPEN, toks[k]
    depth = 0
    for j in range(k, len(toks)):
        t = toks[j]
        if t.kind != 'punct':
            continue
        if t.text in OPEN:
            depth += 1
        elif t.text in CLOSE:
            depth -= 1
            if depth == 0:
                return j
    raise LexError('unbalanced delimiters')


def depth_map(toks):
    """brace depth *before* each token (counting only {}), for top-level scans."""
    d, out = 0, []
    for t in toks:
        if t.kind == 'punct' and t.text == '}':
            d -= 1
        out.append(d)
        if t.kind == 'punct' and t.text == '{':
            d += 1
    return out


class ItemNotFound(Exception):
    pass


def _item_start(src, toks, k):
    """Extend backwards from token k over attributes `#[...]`, visibility and doc comments.
    Returns (start_offset_of_attrs, start_offset_of_item_proper)."""
    # tokens: walk back over `pub`, `pub(crate)`, `#[...]`
    j = k
    while True:
        if j >= 1 and toks[j - 1].kind == 'ident' and toks[j - 1].text in ('pub', 'const', 'unsafe', 'async'):
            j -= 1
            continue
        if j >= 1 and toks[j - 1].text == ')':
            # pub(crate)
            q = j - 1
            while q >= 0 and toks[q].text != '(':
                q -= 1
            if q >= 1 and toks[q - 1].kind == 'ident' and toks[q - 1].text == 'pub':
                j = q - 1
                continue
        break
    proper = toks[j].start
    a = j
    while a >= 1 and toks[a - 1].text == ']':
        q = a - 1
        depth = 0
        while q >= 0:
            if toks[q].text == ']':
                depth += 1
            elif toks[q].text == '[':
                depth -= 1
                if depth == 0:
                    break
            q -= 1
        if q >= 1 and toks[q - 1].text == '#':
            a = q - 1
        else:
            break
    return toks[a].start, proper


def find_impl_body(toks, type_name, trait_name=None):
    """Return list of (open_idx, close_idx) for `impl [Trait for] type_name {` blocks at top level."""
    dm = depth_map(toks)
    res = []
    for k, t in enumerate(toks):
        if dm[k] == 0 and t.kind == 'ident' and t.text == 'impl':
            # find the `{`
            j = k + 1
            if toks[j].text == '<':
                # generic parameters of the impl (`impl<T: Clone + Debug> Type<T>`): not part of the implemented type's path
                ad = 0
                while True:
                    if toks[j].text == '<':
                        ad += 1
                    elif toks[j].text == '>':
                        ad -= 1
                    elif toks[j].text == '>>':
                        ad -= 2
                    j += 1
                    if ad <= 0:
                        break
            names = []
            while toks[j].text != '{':
                if toks[j].kind == 'ident':
                    names.append(toks[j].text)
                j += 1
            has_for = 'for' in names
            if trait_name is None:
                if not has_for and names and names[0] == type_name or (not has_for and type_name in names[:1]):
                    res.append((j, match_close(toks, j)))
            else:
                if has_for and trait_name in names[:names.index('for')] and type_name in names[names.index('for'):]:
                    res.append((j, match_close(toks, j)))
    return res


def find_item(src, toks, kind, name, within=None):
    """Locate an item.  kind in fn/enum/struct/const/type/macro_rules.
    within = (open_idx, close_idx) token range of an impl body, or None for top level.
    Returns dict(start_attrs, start, end, body_open, body_close, kw_idx)."""
    dm = depth_map(toks)
    lo, hi, want_depth = 0, len(toks), 0
    if within is not None:
        lo, hi = within[0] + 1, within[1]
        want_depth = dm[within[0]] + 1
    for k in range(lo, hi):
        t = toks[k]
        if dm[k] != want_depth or t.kind != 'ident':
            continue
        if kind == 'macro_rules':
            if t.text == 'macro_rules' and toks[k + 1].text == '!' and toks[k + 2].text == name:
                j = k + 3
                end = match_close(toks, j)
                return dict(start_attrs=_item_start(src, toks, k)[0], start=t.start, end=toks[end].end,
                            body_open=j, body_close=end, kw_idx=k)
            continue
        if t.text != kind or k + 1 >= hi or toks[k + 1].text != name:
            continue
        # guard against `fn` appearing as a type (`fn(..)`): next token is the name, fine.
        sa, sp = _item_start(src, toks, k)
        # find end: first `{` or `;` at paren-depth 0 after the name
        j = k + 2
        pd = 0
        while j < len(toks):
            x = toks[j].text
            if toks[j].kind == 'punct':
                if x in '([':
                    pd += 1
                elif x in ')]':
                    pd -= 1
                elif x == '{' and pd == 0:
                    end = match_close(toks, j)
                    return dict(start_attrs=sa, start=sp, end=toks[end].end, body_open=j, body_close=end, kw_idx=k)
                elif x == ';' and pd == 0:
                    return dict(start_attrs=sa, start=sp, end=toks[j].end, body_open=None, body_close=None, kw_idx=k)
            j += 1
    raise ItemNotFound(f'{kind} {name}')
