"""Template processor: assembles one Verus file from a contract template and the *current* /repo sources.

Template = Verus text (spec functions, lemmas, trusted axioms) with directive lines `//@...`:

  //@item <file> <kind> <name> [in=<ImplType>] [derive=A,B]   copy a type/const item verbatim
  //@fn <file> <[ImplType::]name> [ret=<id>] [props=C04,C15] [rules=R0,R1] [external_body]
      //@spec                       header clauses (requires/ensures/decreases)
      //@first                      statements inserted at the start of the body (broadcast use / proof)
      //@loop <n>                   clauses for the n-th loop of the body (invariant/decreases)
      //@closure <n> ret=<id>       clauses for the n-th closure (requires/ensures)
      //@before <n> /regex/         proof text inserted before the n-th body line matching regex
      //@after  <n> /regex/         proof text inserted after  the n-th body line matching regex
  //@end

Nothing else is inserted into or removed from executable text (apart from the stated desugarings).
Output: assembled text, a line map (assembled line -> origin), and per-function metadata.
"""
import hashlib
import os
import re
import sys

sys.path.insert(0, os.path.dirname(os.path.abspath(__file__)))
from rustlex import lex, match_close, find_item, find_impl_body, ItemNotFound, LexError  # noqa: E402
from desugar import desugar, Unsupported  # noqa: E402

ALLOWED_DERIVES = {'Clone', 'Copy', 'PartialEq', 'Eq', 'Hash', 'Debug'}


class WeaveError(Exception):
    """machinery cannot decide (lost anchor, unsupported construct) -> exit 2"""


def _kv(args):
    d, pos = {}, []
    for a in args:
        if '=' in a and not a.startswith('/'):
            k, v = a.split('=', 1)
            d[k] = v
        else:
            pos.append(a)
    return pos, d


class SourceCache:
    def __init__(self, repo):
        self.repo = repo
        self.files = {}

    def get(self, rel):
        if rel not in self.files:
            p = os.path.join(self.repo, 'src', rel)
            try:
                src = open(p, encoding='utf-8').read()
            except OSError as e:
                raise WeaveError(f'lost anchor: cannot read {p}: {e}')
            try:
                toks = lex(src)
            except LexError as e:
                raise WeaveError(f'cannot lex {p}: {e}')
            self.files[rel] = (src, toks)
        return self.files[rel]


def _line_of(src, off):
    return src.count('\n', 0, off) + 1


def _filter_attrs(attr_text, derive_override):
    """keep only #[derive(..)] with allowed traits; drop docs/cfg_attr/etc."""
    out = []
    for m in re.finditer(r'#\[derive\(([^\]]*)\)\]', attr_text):
        traits = [x.strip() for x in m.group(1).split(',') if x.strip()]
        traits = [x for x in traits if x in ALLOWED_DERIVES]
        if derive_override is not None:
            traits = [x for x in derive_override if x]
        if traits:
            out.append('#[derive(' + ', '.join(traits) + ')]')
    if not out and derive_override and any(derive_override):
        out.append('#[derive(' + ', '.join(x for x in derive_override if x) + ')]')
    return out


def extract_item(sc, rel, kind, name, impl_type=None, derive=None):
    src, toks = sc.get(rel)
    within = None
    if impl_type:
        # `Type` = inherent impl, `Type@Trait` = `impl .. Trait<..> for Type<..>`
        if '@' in impl_type:
            ty_name, tr_name = impl_type.split('@', 1)
            bodies = find_impl_body(toks, ty_name, tr_name)
        else:
            bodies = find_impl_body(toks, impl_type)
        last = None
        for b in bodies:
            try:
                it = find_item(src, toks, kind, name, within=b)
                last = it
                break
            except ItemNotFound:
                continue
        if last is None:
            raise WeaveError(f'lost anchor: {rel}: {kind} {impl_type}::{name} not found')
        it = last
    else:
        try:
            it = find_item(src, toks, kind, name)
        except ItemNotFound:
            raise WeaveError(f'lost anchor: {rel}: {kind} {name} not found')
    attrs = src[it['start_attrs']:it['start']]
    text = src[it['start']:it['end']]
    line0 = _line_of(src, it['start'])
    return dict(attrs=_filter_attrs(attrs, derive), text=text, line0=line0, rel=rel,
                line1=_line_of(src, it['end']))


def _strip_doc_comments(text):
    return re.sub(r'(?m)^\s*///.*$', '', text)


def _strip_inner_attrs(text):
    # field-level #[cfg_attr(...)] / #[serde(...)] inside type bodies
    return re.sub(r'(?m)^\s*#\[(cfg_attr|serde)[^\n]*\]\s*$', '', text)


LOOP_KW = ('for', 'while', 'loop')


def _loops(text):
    """token indices of loop keywords in textual order, with the index of the body `{`"""
    toks = lex(text)
    res = []
    for k, t in enumerate(toks):
        if t.kind == 'ident' and t.text in LOOP_KW:
            if t.text == 'for' and k + 1 < len(toks) and toks[k + 1].text == '<':
                continue  # for<'a> HRTB
            # body `{` = first `{` at paren depth 0
            pd, j = 0, k + 1
            while j < len(toks):
                x = toks[j]
                if x.kind == 'punct':
                    if x.text in '([':
                        pd += 1
                    elif x.text in ')]':
                        pd -= 1
                    elif x.text == '{' and pd == 0:
                        break
                j += 1
            if j < len(toks):
                res.append((k, j, toks))
    return res


def _closures(text):
    """closures written `|args| {` or `|args| -> T {` : returns list of (bar1_tok, bar2_tok, body_open_tok, toks)"""
    toks = lex(text)
    res = []
    k = 0
    while k < len(toks):
        t = toks[k]
        if t.text == '|' and k > 0 and (toks[k - 1].text in ('=', '(', ',', 'move') ):
            # find closing bar
            j = k + 1
            while j < len(toks) and toks[j].text != '|':
                j += 1
            # body
            b, bd = j + 1, 0
            while b < len(toks) and (bd > 0 or (toks[b].text != '{' and toks[b].text not in (';', ')'))):
                if toks[b].text == '[':
                    bd += 1
                elif toks[b].text == ']':
                    bd -= 1
                b += 1
            if b < len(toks) and toks[b].text == '{':
                res.append((k, j, b, toks))
            k = j + 1
            continue
        k += 1
    return res


class FnBlock:
    def __init__(self, rel, path, opts, tline):
        self.rel, self.path, self.opts, self.tline = rel, path, opts, tline
        self.spec, self.first = [], []
        self.loops, self.closures, self.anchors = {}, {}, []
        self.loop_opts = {}
        self.lift = None
        self.cur = None

    def add_line(self, line, tline):
        if self.cur is None:
            if line.strip():
                raise WeaveError(f'template line {tline}: text outside a section in //@fn block')
            return
        self.cur.append((line, tline))


def apply_inserts(text, origin, inserts):
    """inserts: list of (offset, ins_text).  Returns (new_text, new_origin) where origin is per line;
    inserted lines get origin ('tmpl',)."""
    order = sorted(range(len(inserts)), key=lambda i: (inserts[i][0], i))
    # line index of each offset
    pos = 0
    segs = []  # (text, kind, first_old_line)
    for i in order:
        off, ins = inserts[i]
        segs.append((text[pos:off], 'old'))
        segs.append((ins, 'new'))
        pos = off
    segs.append((text[pos:], 'old'))
    new_text = ''.join(x for x, _ in segs)
    # walk: each output line's origin = origin of the old line of the first old char on it, else tmpl
    new_origin = []
    old_line = 0
    line_has_old = None
    for seg, kind in segs:
        for ch in seg:
            if ch == '\n':
                new_origin.append(origin[line_has_old] if line_has_old is not None else ('tmpl',))
                line_has_old = None
                if kind == 'old':
                    old_line += 1
            else:
                if kind == 'old' and line_has_old is None and not ch.isspace():
                    line_has_old = old_line
    new_origin.append(origin[line_has_old] if line_has_old is not None else ('tmpl',))
    return new_text, new_origin


def instantiate_macro(sc, rel, macro, bindings):
    """R6: the transcriber of a one-rule `macro_rules!` is instantiated by token substitution of its metavariables
    (`$name` -> text), e.g. macro:make_resolve_const_function[fn_ident=resolve_const_expr_unsigned,const_ty=u64]."""
    src, toks = sc.get(rel)
    try:
        m = find_item(src, toks, 'macro_rules', macro)
    except ItemNotFound:
        raise WeaveError(f'lost anchor: {rel}: macro_rules! {macro} not found')
    # first `=>` followed by `{` inside the macro body
    k = m['body_open']
    j = k + 1
    while j < m['body_close'] and not (toks[j].text == '=' and toks[j + 1].text == '>' and toks[j + 2].text == '{'):
        j += 1
    if j >= m['body_close']:
        raise WeaveError(f'{rel}: macro {macro}: no transcriber found')
    o = j + 2
    c = match_close(toks, o)
    text = src[toks[o].end:toks[c].start]
    line0 = src.count('\n', 0, toks[o].end) + 1
    for b in bindings.split(','):
        if not b.strip():
            continue
        name, val = b.split('=', 1)
        text = re.sub(r'\$' + re.escape(name.strip()) + r'\b', val.strip(), text)
    if '$' in text:
        raise WeaveError(f'{rel}: macro {macro}: unbound metavariable after substitution')
    return dict(attrs=[], text=text, line0=line0, rel=rel, line1=line0 + text.count('\n'))


def lift_block(fb, it):
    """R5 block lifting: the `{ .. }` block that starts on the n-th line of the enclosing function matching the
    regex is copied verbatim as the body of a generated function `fn NAME(PARAMS) -> RET`.  With skip=N the first
    N statements of the block must be operand evaluations `let [mut] V = V.compile(prg, env, circuit);` and are
    dropped: their results are parameters of the generated function (R5b)."""
    text = it['text']
    lines = text.split('\n')
    try:
        cre = re.compile(fb.lift['regex'])
    except re.error as e:
        raise WeaveError(f'template line {fb.tline}: bad regex: {e}')
    hits = [i for i, l in enumerate(lines) if cre.search(l)]
    if len(hits) < fb.lift['occ']:
        raise WeaveError(f"lost anchor: {fb.path}: /{fb.lift['regex']}/ occurrence {fb.lift['occ']} not found ({len(hits)} matches)")
    li = hits[fb.lift['occ'] - 1]
    off = sum(len(l) + 1 for l in lines[:li])
    line = lines[li]
    if 'expr' in fb.opts:
        # single-line expression arm `PATTERN => EXPR,`
        m2 = re.search(r'=>\s*(.*?),?\s*$', line)
        if not m2 or not m2.group(1) or m2.group(1).endswith('{'):
            raise WeaveError(f'{fb.path}: not a single-line expression arm: {line.strip()}')
        block = '{ ' + m2.group(1) + ' }'
        params = ' '.join(' '.join(l.split()) for l, _ in fb.lift.get('params', []))
        ret = fb.lift.get('returns')
        name = fb.opts.get('name')
        raw = f'fn {name}({params})' + (f' -> {ret} ' if ret else ' ') + block
        it2 = dict(it)
        it2['line0'] = it['line0'] + li
        it2['line1'] = it['line0'] + li
        it2['text'] = raw
        fb.path = name
        return it2, raw
    if not line.rstrip().endswith('{'):
        raise WeaveError(f'{fb.path}: lifted line does not open a block: {line.strip()}')
    start = off + line.rstrip().rindex('{')
    toks = lex(text)
    k = next((i for i, t in enumerate(toks) if t.start == start), None)
    if k is None:
        raise WeaveError(f'{fb.path}: cannot locate the block to lift')
    end = toks[match_close(toks, k)].end
    block = text[start:end]
    if 'match' in fb.opts:
        # the lifted line is `PATTERN => match SCRUTINEE {`: the whole inner match expression is the function body
        m3 = re.search(r'=>\s*(match\s+[^{]*)\{\s*$', line)
        if not m3:
            raise WeaveError(f'{fb.path}: lifted line is not `PATTERN => match X {{`: {line.strip()}')
        block = '{ ' + m3.group(1) + block + ' }'
    if 'okwrap' in fb.opts:
        # (R5f) the lifted block is an expression-valued block of a function that returns `Result<_, E>` and uses `?` inside: the generated
        # function returns `Ok(BLOCK)`, so that `?` keeps its meaning (an early `Err` return of the enclosing function)
        block = '{ Ok(' + block + ') }'
    frm = fb.lift.get('from')
    if frm:
        # R5d: the statements of the block before the first line matching the regex are dropped; the variables they bind are
        # parameters of the generated function (operand evaluation and size computations stay outside the contract)
        blines = block.split('\n')
        try:
            fre = re.compile(frm)
        except re.error as e:
            raise WeaveError(f'template line {fb.tline}: bad from= regex: {e}')
        hit = next((q for q in range(1, len(blines)) if fre.search(blines[q])), None)
        if hit is None:
            raise WeaveError(f"lost anchor: {fb.path}: from=/{frm}/ not found in the lifted block")
        for q in range(1, hit):
            blines[q] = ''
        block = '\n'.join(blines)
    bind = fb.opts.get('bind')
    if bind:
        # R5c: the first statement of the block must be the single-line `let NAME = EXPR;` and is dropped: NAME is a parameter of
        # the generated function (its defining expression stays outside the contract)
        blines = block.split('\n')
        pat_b = re.compile(r'^\s*let ' + re.escape(bind) + r' = ([^;]*);\s*$')
        q = 1
        while q < len(blines) and not blines[q].strip():
            q += 1
        if q < len(blines) and not pat_b.match(blines[q]):
            # (R5c, later position) the statement may follow other single-line `let`s of the block if its defining expression
            # mentions none of the names they bind: it then evaluates to the same value before them
            bound = set()
            while q < len(blines) and not pat_b.match(blines[q]):
                ml = re.match(r'^\s*let (?:mut )?(\w+)(?:: [^=]+)? = [^{}]*;\s*$', blines[q])
                if not ml:
                    break
                bound.add(ml.group(1))
                q += 1
            mb = pat_b.match(blines[q]) if q < len(blines) else None
            if mb and bound & set(re.findall(r'[A-Za-z_]\w*', mb.group(1))):
                raise WeaveError(f'{fb.path}: bind={bind}: the defining expression depends on an earlier statement of the block')
        if q >= len(blines) or not pat_b.match(blines[q]):
            raise WeaveError(f'{fb.path}: first statement of the lifted block is not `let {bind} = ..;`: '
                             + (blines[q].strip() if q < len(blines) else '<eof>'))
        blines[q] = ''
        block = '\n'.join(blines)
    skip = int(fb.opts.get('skip', 0))
    if skip:
        blines = block.split('\n')
        pat = re.compile(r'^\s*let (mut )?(\w+) = \2\.compile\(prg, env, circuit\);\s*$')
        j, done = 1, 0
        while done < skip:
            if j < len(blines) and not blines[j].strip():
                j += 1      # (a statement dropped by bind=)
                continue
            if j >= len(blines) or not pat.match(blines[j]):
                raise WeaveError(f'{fb.path}: statement {j} of the lifted block is not an operand evaluation: '
                                 + (blines[j].strip() if j < len(blines) else '<eof>'))
            blines[j] = ''
            j += 1
            done += 1
        block = '\n'.join(blines)
    until = fb.lift.get('until') or fb.opts.get('until')
    if until:
        # R5e: the statements of the block from the first line matching the regex on are dropped and the expression given by yield=
        # becomes the value of the block (what follows the part under contract - e.g. a call through a `dyn FnMut` - stays outside)
        blines = block.split('\n')
        try:
            ure = re.compile(until.strip('/'))
        except re.error as e:
            raise WeaveError(f'template line {fb.tline}: bad until= regex: {e}')
        hit = next((q for q in range(1, len(blines) - 1) if ure.search(blines[q])), None)
        if hit is None:
            raise WeaveError(f"lost anchor: {fb.path}: until=/{until}/ not found in the lifted block")
        y = fb.opts.get('yield')
        if not y:
            raise WeaveError(f'template line {fb.tline}: until= needs yield=')
        for q in range(hit, len(blines) - 1):
            blines[q] = ''
        blines[hit] = y
        block = '\n'.join(blines)
    params = ' '.join(' '.join(l.split()) for l, _ in fb.lift.get('params', []))
    ret = fb.lift.get('returns')
    name = fb.opts.get('name')
    if not name:
        raise WeaveError(f'template line {fb.tline}: //@lift needs name=')
    header = f'fn {name}({params})' + (f' -> {ret} ' if ret else ' ')
    raw = header + block
    it2 = dict(it)
    it2['line0'] = it['line0'] + li
    it2['line1'] = it['line0'] + li + block.count('\n')
    it2['text'] = raw
    fb.path = name
    return it2, raw


def _body_open(toks):
    pd = 0
    for k, t in enumerate(toks):
        if t.kind == 'punct':
            if t.text in '([':
                pd += 1
            elif t.text in ')]':
                pd -= 1
            elif t.text == '{' and pd == 0:
                return k
    return None


def weave_fn(sc, fb, reach=False):
    mm = re.match(r'^macro:(\w+)\[(.*)\]$', fb.path)
    if mm:
        it = instantiate_macro(sc, fb.rel, mm.group(1), mm.group(2))
    else:
        impl_type, name = fb.path.split('::') if '::' in fb.path else (None, fb.path)
        it = extract_item(sc, fb.rel, 'fn', name, impl_type=impl_type)
    raw = it['text']
    if fb.lift is not None:
        it, raw = lift_block(fb, it)
    rules = fb.opts.get('rules')
    rules = rules.split(',') if rules else ['R0', 'R1', 'R7', 'R8', 'R2', 'R3', 'R9', 'R10', 'R11', 'R12', 'R13', 'R15', 'R16', 'R17', 'R18', 'R20', 'R21', 'R22', 'R23', 'R24', 'R25', 'R26', 'R27', 'R28', 'R29', 'R21b', 'R30', 'R31', 'R32', 'R22b', 'R16b', 'R0b', 'R33', 'R34', 'R35', 'R36', 'R37', 'R38', 'R39', 'R40', 'R41', 'R42', 'R43', 'R44']
    counts = {}
    try:
        # phase A: line-preserving token rewrites
        import desugar as _dz
        _dz.set_opts(fb.opts)
        for dn in [x for x in fb.opts.get('dead', '').split('+') if x]:
            if not re.search(r'(?m)^\s*(pub(\(crate\))? )?const ' + re.escape(dn) + r': bool = false;', sc.get(fb.rel)[0]):
                raise WeaveError(f'{fb.path}: dead={dn}: the source does not declare `const {dn}: bool = false;`')
        text, c = desugar(raw, [r for r in rules if r in ('R0', 'R1', 'R7', 'R8', 'R28')])
        counts.update(c)
        if text.count('\n') != raw.count('\n'):
            raise WeaveError(f'internal: desugaring changed the line count of {fb.path}')
        origin = [('src', fb.rel, it['line0'] + i) for i in range(text.count('\n') + 1)]
        toks = lex(text)
        bo = _body_open(toks)
        if bo is None:
            raise WeaveError(f'{fb.path}: no body')
        if 'external_body' in fb.opts:
            bc = match_close(toks, bo)
            body_nl = text[toks[bo].end:toks[bc].start].count('\n')
            text = text[:toks[bo].end] + ' unimplemented!()' + ('\n' * body_nl) + text[toks[bc].start:]
        else:
            # phase B: proof text at line anchors (so that it is replicated with an unrolled loop body)
            lines = text.split('\n')
            line_starts = [0]
            for l in lines[:-1]:
                line_starts.append(line_starts[-1] + len(l) + 1)
            body_first_line = text.count('\n', 0, toks[bo].end)
            inserts = []
            for (where, occ, rx, alines, tline) in fb.anchors:
                if where == 'bindtail':
                    # R14: the tail expression E of the body (everything after the last top-level `;`) becomes
                    # `let NAME = E; <proof text> NAME` so that a proof block can follow a branching tail expression
                    bc = match_close(toks, bo)
                    depth, last_semi = 0, None
                    for q in range(bo + 1, bc):
                        tx = toks[q].text
                        if toks[q].kind == 'punct':
                            if tx in '([{':
                                depth += 1
                            elif tx in ')]}':
                                depth -= 1
                            elif tx == ';' and depth == 0:
                                last_semi = q
                    first = (last_semi + 1) if last_semi is not None else bo + 1
                    if first >= bc:
                        raise WeaveError(f'{fb.path}: bindtail: the body has no tail expression')
                    # block statements (loops) between the last `;` and the tail expression are skipped
                    while first < bc and toks[first].kind == 'ident' and toks[first].text in ('for', 'while', 'loop'):
                        q, pd = first + 1, 0
                        while q < bc and not (toks[q].text == '{' and pd == 0):
                            if toks[q].text in '([':
                                pd += 1
                            elif toks[q].text in ')]':
                                pd -= 1
                            q += 1
                        if q >= bc:
                            raise WeaveError(f'{fb.path}: bindtail: cannot find the body of the loop that precedes the tail expression')
                        first = match_close(toks, q) + 1
                    if first >= bc:
                        raise WeaveError(f'{fb.path}: bindtail: the body has no tail expression')
                    if toks[first].kind == 'ident' and toks[first].text == 'let':
                        raise WeaveError(f'{fb.path}: bindtail: a block statement precedes the tail expression')
                    ins = ''.join(l + '\n' for l, _ in alines)
                    inserts.append((toks[first].start, f'let {rx} = '))
                    inserts.append((toks[bc - 1].end, f';\n{ins}{rx}\n'))
                    counts['R14'] = counts.get('R14', 0) + 1
                    continue
                if where == 'tail':
                    # before the tail expression of the body (last non-blank line before the closing brace, when it
                    # is an expression), else just before the closing brace
                    bc_line = text.count('\n', 0, toks[match_close(toks, bo)].start)
                    li = bc_line - 1
                    while li > body_first_line and not lines[li].strip():
                        li -= 1
                    last = lines[li].strip()
                    ins = ''.join(l + '\n' for l, _ in alines)
                    if last.endswith(';') or last.endswith('}') or last.endswith('{') or li <= body_first_line:
                        inserts.append((line_starts[bc_line], ins))
                    else:
                        inserts.append((line_starts[li], ins))
                    continue
                try:
                    cre = re.compile(rx)
                except re.error as e:
                    raise WeaveError(f'template line {tline}: bad regex {rx}: {e}')
                hits = [i for i in range(body_first_line, len(lines)) if cre.search(lines[i])]
                if len(hits) < occ:
                    raise WeaveError(f'lost anchor: {fb.path}: /{rx}/ occurrence {occ} not found ({len(hits)} matches)')
                li = hits[occ - 1]
                ins = ''.join(l + '\n' for l, _ in alines)
                if where == 'afterstmt':
                    # advance to the line on which the statement starting at the matching line ends
                    depth, lj = 0, li
                    while lj < len(lines):
                        code = lines[lj].split('//')[0]
                        depth += sum(code.count(c) for c in '([{') - sum(code.count(c) for c in ')]}')
                        if depth <= 0 and code.rstrip().endswith(';'):
                            break
                        lj += 1
                    if lj >= len(lines):
                        raise WeaveError(f'{fb.path}: statement at /{rx}/ has no end')
                    li = lj
                if where == 'before':
                    inserts.append((line_starts[li], ins))
                else:
                    off = line_starts[li] + len(lines[li]) + 1
                    if off > len(text):
                        off, ins = len(text), '\n' + ins
                    inserts.append((off, ins))
            text, origin = apply_inserts(text, origin, inserts)
            # phase C: loop desugarings (line preserving)
            before = text.count('\n')
            text, c = desugar(text, [r for r in rules if r in ('R2', 'R3', 'R9', 'R10', 'R11', 'R12', 'R13', 'R15', 'R16', 'R17', 'R18', 'R20', 'R21', 'R22', 'R23', 'R24', 'R25', 'R26', 'R27', 'R29', 'R21b', 'R30', 'R31', 'R32', 'R22b', 'R16b', 'R0b', 'R33', 'R34', 'R35', 'R36', 'R37', 'R38', 'R39', 'R40', 'R41', 'R42', 'R43', 'R44')])
            counts.update(c)
            if text.count('\n') != before:
                raise WeaveError(f'internal: desugaring changed the line count of {fb.path}')
    except Unsupported as e:
        raise WeaveError(f'unsupported construct in {fb.path}: {e}')
    except LexError as e:
        raise WeaveError(f'cannot lex {fb.path}: {e}')
    # phase D: header clauses, first statements, loop and closure clauses
    toks = lex(text)
    bo = _body_open(toks)
    inserts = []
    ret = fb.opts.get('ret')
    if ret:
        pd, arrow = 0, None
        for k in range(bo):
            t = toks[k]
            if t.text in '([':
                pd += 1
            elif t.text in ')]':
                pd -= 1
            elif t.text == '-' and toks[k + 1].text == '>' and pd == 0:
                arrow = k
        if arrow is None:
            raise WeaveError(f'{fb.path}: ret= given but function has no return type')
        inserts.append((toks[arrow + 2].start, f'({ret}: '))
        inserts.append((toks[bo - 1].end, ')'))
    spec_txt = ''.join('\n' + l for l, _ in fb.spec)
    if spec_txt:
        inserts.append((toks[bo - 1].end, spec_txt + '\n'))
    external = 'external_body' in fb.opts
    if not external:
        first_txt = ''.join(l + '\n' for l, _ in fb.first)
        if reach:
            first_txt += f'proof {{ assert(false); }} // [reach:{fb.path}]\n'
        if first_txt:
            inserts.append((toks[bo].end, '\n' + first_txt))
        lps = _loops(text)
        for n, clause_lines in fb.loops.items():
            if n < 1 or n > len(lps):
                raise WeaveError(f'lost anchor: {fb.path}: loop #{n} not found (function has {len(lps)} loops)')
            k, j, ltoks = lps[n - 1]
            inserts.append((ltoks[j].start, '\n' + ''.join(l + '\n' for l, _ in clause_lines)))
            it_name = fb.loop_opts.get(n, {}).get('iter')
            if it_name:
                # name the ghost iterator of a `for` loop: `for x in it: EXPR`
                q = k + 1
                while q < j and not (ltoks[q].kind == 'ident' and ltoks[q].text == 'in'):
                    q += 1
                if ltoks[k].text != 'for' or q >= j:
                    raise WeaveError(f'{fb.path}: loop #{n}: iter= needs a for loop')
                inserts.append((ltoks[q].end, f' {it_name}:'))
        cls = _closures(text)
        for n, (copts, clause_lines) in fb.closures.items():
            if n < 1 or n > len(cls):
                raise WeaveError(f'lost anchor: {fb.path}: closure #{n} not found (function has {len(cls)} closures)')
            k, j, b, ctoks = cls[n - 1]
            cret, crty = copts.get('ret'), copts.get('ty')
            hdr = ''
            if cret and ctoks[j + 1].text == '-':
                # the closure declares `-> T`: name the result `-> (ret: T)`, clauses go before the body
                inserts.append((ctoks[j + 3].start, f'({cret}: '))
                inserts.append((ctoks[b].start, ')\n' + ''.join(l + '\n' for l, _ in clause_lines)))
                continue
            if cret:
                hdr = f' -> ({cret}: {crty})'
            inserts.append((ctoks[j].end, hdr + '\n' + ''.join(l + '\n' for l, _ in clause_lines)))
    text, origin = apply_inserts(text, origin, inserts)
    if external:
        text = '#[verifier::external_body]\n' + text
        origin = [('tmpl',)] + origin
    elif 'no_decreases' in fb.opts:
        # termination of the loops of this function is NOT proved (option `no_decreases` of the //@fn line; listed as an assumption)
        text = '#[verifier::exec_allows_no_decreases_clause]\n' + text
        origin = [('tmpl',)] + origin
    if not external and fb.opts.get('loop_isolation') == 'false':
        # (unit or function option loop_isolation=false) what is known before a loop stays known inside it, so that a local introduced before
        # a loop by a refactoring and used inside it does not break the proof
        text = '#[verifier::loop_isolation(false)]\n' + text
        origin = [('tmpl',)] + origin
    return _finish(fb, it, text, origin, counts, raw, external)


def _finish(fb, it, final, origin, counts, raw, external):
    meta = dict(path=fb.path, file=fb.rel, line0=it['line0'], line1=it['line1'],
                sha256=hashlib.sha256(raw.encode()).hexdigest()[:16], rules=counts,
                props=[p for p in fb.opts.get('props', '').split(',') if p], external_body=external,
                assumed_from=fb.opts.get('assumed_from'), tline=fb.tline, origin=origin)
    return final, meta


DIRECTIVE = re.compile(r'^\s*//@(\w+)\s*(.*)$')


def _expand_includes(path, assume=None, depth=0):
    """returns list of (line, 'file:lineno', assume_mode).  `//@include f.inc [assume]`: with `assume`, every
    //@fn of the included file becomes external_body here (its contract is proved in the unit that owns it)."""
    if depth > 5:
        raise WeaveError('include depth')
    out = []
    base = os.path.dirname(path)
    try:
        lines = open(path, encoding='utf-8').read().split('\n')
    except OSError as e:
        raise WeaveError(f'cannot read template {path}: {e}')
    for n, l in enumerate(lines, 1):
        m = DIRECTIVE.match(l)
        if m and m.group(1) == 'include':
            args = m.group(2).split()
            sub = os.path.join(base, args[0])
            mode = assume
            if 'assume' in args[1:]:
                mode = os.path.basename(args[0])
            out += _expand_includes(sub, mode, depth + 1)
        else:
            out.append((l, f'{os.path.basename(path)}:{n}', assume))
    return out


def process_template(tmpl_path, repo, reach=False):
    sc = SourceCache(repo)
    out_lines = []   # assembled text lines
    out_origin = []  # per assembled line: ('tmpl', line) | ('src', file, line) | ('tmpl',)
    fn_meta = []     # per extracted function: meta + [first_line, last_line] in assembled file
    item_meta = []
    unit = dict(rlimit='100')
    tlines = _expand_includes(tmpl_path)
    fb = None
    i = 0

    def emit(text, origins=None, base=None):
        for k, l in enumerate(text.split('\n')):
            out_lines.append(l)
            if origins is not None:
                out_origin.append(origins[k])
            elif base is not None:
                out_origin.append(('src', base[0], base[1] + k))
            else:
                out_origin.append(('tmpl',))

    while i < len(tlines):
        line, tl, assume_mode = tlines[i]
        m = DIRECTIVE.match(line)
        i += 1
        if not m:
            if fb is not None:
                fb.add_line(line, tl)
            else:
                out_lines.append(line)
                out_origin.append(('tmpl', tl))
            continue
        d, rest = m.group(1), m.group(2).strip()
        args = rest.split()
        if d == 'unit':
            _, kv = _kv(args)
            unit.update(kv)
        elif d == 'item':
            pos, kv = _kv(args)
            rel, kind, name = pos[:3]
            derive = kv['derive'].split(',') if 'derive' in kv else None
            it = extract_item(sc, rel, kind, name, impl_type=kv.get('in'), derive=derive)
            text = _strip_inner_attrs(_strip_doc_comments(it['text']))
            if kv.get('vis', 'drop') == 'drop':
                text = re.sub(r'\bpub(\((crate|super)\))?\s+', '', text)
            for a in it['attrs']:
                out_lines.append(a)
                out_origin.append(('src', rel, it['line0']))
            emit(text, base=(rel, it['line0']))
            item_meta.append(dict(kind=kind, name=name, file=rel, line0=it['line0'], line1=it['line1'],
                                  sha256=hashlib.sha256(it['text'].encode()).hexdigest()[:16]))
        elif d == 'fn':
            if fb is not None:
                raise WeaveError(f'template line {tl}: nested //@fn')
            pos, kv = _kv(args)
            for flag in pos[2:]:
                kv[flag] = True
            if assume_mode:
                kv['external_body'] = True
                kv['assumed_from'] = assume_mode
            fb = FnBlock(pos[0], pos[1], kv, tl)
        elif d == 'lift':
            # //@lift <file> <[Impl::]fn> /regex/ <occ> name=<fn> [skip=N] [props=..]
            if fb is not None:
                raise WeaveError(f'template line {tl}: nested //@lift')
            mm = re.match(r'^(\S+)\s+(\S+)\s+/(.*)/\s+(\d+)\s*(.*)$', rest)
            if not mm:
                raise WeaveError(f'template line {tl}: bad //@lift directive')
            rest5 = mm.group(5)
            mfrom = re.search(r'from=/((?:[^/\\]|\\.)*)/', rest5)
            lift_from = None
            if mfrom:
                lift_from = mfrom.group(1)
                rest5 = rest5[:mfrom.start()] + rest5[mfrom.end():]
            muntil = re.search(r'until=/((?:[^/\\]|\\.)*)/', rest5)
            lift_until = None
            if muntil:
                lift_until = muntil.group(1)
                rest5 = rest5[:muntil.start()] + rest5[muntil.end():]
            flags, kv = _kv(rest5.split())
            for fl in flags:
                kv[fl] = True
            if assume_mode:
                kv['external_body'] = True
                kv['assumed_from'] = assume_mode
            fb = FnBlock(mm.group(1), mm.group(2), kv, tl)
            fb.lift = dict(regex=mm.group(3), occ=int(mm.group(4)))
            if lift_from:
                fb.lift['from'] = lift_from
            if lift_until:
                fb.lift['until'] = lift_until
        elif d in ('params', 'returns'):
            if fb is None or fb.lift is None:
                raise WeaveError(f'template line {tl}: //@{d} outside //@lift')
            if d == 'returns':
                fb.lift['returns'] = rest
                fb.cur = None
            else:
                fb.lift['params'] = []
                fb.cur = fb.lift['params']
        elif d in ('spec', 'first'):
            if fb is None:
                raise WeaveError(f'template line {tl}: //@{d} outside //@fn')
            fb.cur = fb.spec if d == 'spec' else fb.first
        elif d == 'loop':
            pos, kv = _kv(args)
            n = int(pos[0])
            fb.loops[n] = []
            fb.loop_opts[n] = kv
            fb.cur = fb.loops[n]
        elif d == 'closure':
            pos, kv = _kv(args)
            n = int(pos[0])
            fb.closures[n] = (kv, [])
            fb.cur = fb.closures[n][1]
        elif d == 'tail':
            lst = []
            fb.anchors.append(('tail', 1, '', lst, tl))
            fb.cur = lst
        elif d == 'bindtail':
            if not re.match(r'^\w+$', rest.strip()):
                raise WeaveError(f'template line {tl}: //@bindtail needs a name')
            lst = []
            fb.anchors.append(('bindtail', 1, rest.strip(), lst, tl))
            fb.cur = lst
        elif d in ('before', 'after', 'afterstmt'):
            mm = re.match(r'^(\d+)\s+/(.*)/\s*$', rest)
            if not mm:
                raise WeaveError(f'template line {tl}: bad anchor directive')
            lst = []
            fb.anchors.append((d, int(mm.group(1)), mm.group(2), lst, tl))
            fb.cur = lst
        elif d == 'end':
            if fb is None:
                raise WeaveError(f'template line {tl}: //@end without //@fn')
            if unit.get('loop_isolation') == 'false' and 'loop_isolation' not in fb.opts:
                fb.opts['loop_isolation'] = 'false'
            final, meta = weave_fn(sc, fb, reach=reach)
            first = len(out_lines) + 1
            emit(final, origins=meta.pop('origin'))
            meta['out_first'], meta['out_last'] = first, len(out_lines)
            fn_meta.append(meta)
            fb = None
        else:
            raise WeaveError(f'template line {tl}: unknown directive //@{d}')
    if fb is not None:
        raise WeaveError('unterminated //@fn block')
    assert len(out_lines) == len(out_origin)
    return '\n'.join(out_lines) + '\n', dict(unit=unit, fns=fn_meta, items=item_meta, origin=out_origin)


ASSUMPTION_RE = re.compile(r'\b(assume|admit)\s*\(|external_body|assume_specification|#\[verifier::external|exec_allows_no_decreases_clause')


def scan_assumptions(text):
    """mechanical scan for every unchecked assumption in an assembled unit"""
    res = []
    for ln, l in enumerate(text.split('\n'), 1):
        s = l.strip()
        if s.startswith('//'):
            continue
        if ASSUMPTION_RE.search(l):
            res.append((ln, s[:200]))
    return res


if __name__ == '__main__':
    import json
    text, meta = process_template(sys.argv[1], sys.argv[2] if len(sys.argv) > 2 else '/repo')
    sys.stdout.write(text)
    meta.pop('origin')
    sys.stderr.write(json.dumps(meta, indent=1) + '\n')
