"""Self-test of the contracts (thorough tier): hand-seeded mutants of /repo/src applied to a scratch copy; each must be
refuted by the unit that owns the mutated function (or verify, for the listed semantically equivalent ones).
A mutant that destroys a proof anchor makes the unit undecided (exit 2 in a real run): reported as `undecided`."""
import json
import os
import shutil
import sys
import tempfile
from concurrent.futures import ThreadPoolExecutor

TOOLS = os.path.dirname(os.path.abspath(__file__))
VERIF = os.path.dirname(TOOLS)
sys.path.insert(0, TOOLS)
import verus_unit  # noqa: E402


def run_unit_mutants(unit, repo):
    path = os.path.join(VERIF, 'mutants', unit + '.json')
    if not os.path.exists(path):
        return []
    muts = json.load(open(path))
    base = tempfile.mkdtemp(prefix=f'verif_mut_{unit}_')

    def one(k):
        m = muts[k]
        d = os.path.join(base, k)
        os.makedirs(os.path.join(d, 'src'))
        for x in os.listdir(os.path.join(repo, 'src')):
            shutil.copy(os.path.join(repo, 'src', x), os.path.join(d, 'src', x))
        p = os.path.join(d, 'src', m['file'])
        s = open(p).read()
        if m['old'] not in s:
            return dict(mutant=k, unit=unit, verdict='not-applicable (source text changed)', expect=m['expect'], ok=True)
        open(p, 'w').write(s.replace(m['old'], m['new'], 1))
        r = verus_unit.run_unit(unit, d, os.path.join(d, 'work'))
        shutil.rmtree(d, ignore_errors=True)
        verdict = {'ok': 'ok', 'refuted': 'refuted', 'undecided': 'undecided', 'error': 'undecided'}[r.status]
        good = (verdict == m['expect']) or (m['expect'] == 'refuted' and verdict == 'undecided')
        return dict(mutant=k, unit=unit, verdict=verdict, expect=m['expect'], ok=good,
                    failed=[(e['fn'] or '<proof item>') + ': ' + e['message'] for e in r.errors][:3])
    try:
        with ThreadPoolExecutor(max_workers=6) as ex:
            return list(ex.map(one, list(muts)))
    finally:
        shutil.rmtree(base, ignore_errors=True)


if __name__ == '__main__':
    for r in run_unit_mutants(sys.argv[1], sys.argv[2] if len(sys.argv) > 2 else '/repo'):
        print(r)
