//! C08: match exhaustiveness verdicts and first-match semantics through the public API (check / compile / eval)
//! against brute-force enumeration of the scrutinee domain.  Bounded differential (witness search + replay).

use crate::util::{arg, arg_u64, field, write_out, Rng};

#[derive(Clone, Debug, PartialEq)]
pub enum Pat {
    Wild,
    Bind,
    Int(i64),
    Incl(i64, i64),
    Excl(i64, i64),
    True,
    False,
    Tuple(Vec<Pat>),
    /// enum E { A, B(u8), C(bool, bool, bool) }
    EnumA,
    EnumB(Box<Pat>),
    EnumC(Box<Pat>, Box<Pat>, Box<Pat>),
    /// `E::C(p)`: too few sub-patterns for the variant C(bool, bool, bool) - ill-typed, matches nothing
    EnumCShort(Box<Pat>),
    /// struct S { a: u8, b: bool, c: i8 }: the listed (field index, pattern) pairs in the written order, `..` if the flag is set
    Struct(Vec<(usize, Pat)>, bool),
}

#[derive(Clone, Debug, PartialEq)]
pub enum Val {
    Int(i64),
    Bool(bool),
    Tuple(Vec<Val>),
    A,
    B(i64),
    C(bool, bool, bool),
    S(i64, bool, i64),
}

#[derive(Clone, Debug, PartialEq)]
pub enum Ty {
    Int(&'static str, i64, i64),
    Bool,
    Tuple(Vec<Ty>),
    Enum,
    Struct,
}

const S_FIELDS: [&str; 3] = ["a", "b", "c"];
fn s_field_ty(i: usize) -> Ty {
    match i { 0 => Ty::Int("u8", 0, 255), 1 => Ty::Bool, _ => Ty::Int("i8", -128, 127) }
}
fn s_field_val(v: &Val, i: usize) -> Val {
    if let Val::S(a, b, c) = v { match i { 0 => Val::Int(*a), 1 => Val::Bool(*b), _ => Val::Int(*c) } } else { unreachable!() }
}

fn matches(p: &Pat, v: &Val) -> bool {
    match (p, v) {
        (Pat::Wild | Pat::Bind, _) => true,
        (Pat::Int(n), Val::Int(x)) => n == x,
        (Pat::Incl(a, b), Val::Int(x)) => a <= x && x <= b,
        (Pat::Excl(a, b), Val::Int(x)) => a <= x && x < b,
        (Pat::True, Val::Bool(b)) => *b,
        (Pat::False, Val::Bool(b)) => !*b,
        // (a tuple pattern with the wrong number of components is ill-typed and matches nothing)
        (Pat::Tuple(ps), Val::Tuple(vs)) => ps.len() == vs.len() && ps.iter().zip(vs).all(|(p, v)| matches(p, v)),
        (Pat::EnumA, Val::A) => true,
        (Pat::EnumB(p), Val::B(x)) => matches(p, &Val::Int(*x)),
        (Pat::EnumC(p, q, r), Val::C(a, b, c)) => matches(p, &Val::Bool(*a)) && matches(q, &Val::Bool(*b)) && matches(r, &Val::Bool(*c)),
        (Pat::Struct(fs, _), Val::S(..)) => fs.iter().all(|(i, p)| matches(p, &s_field_val(v, *i))),
        _ => false,
    }
}

fn show(p: &Pat, k: &mut usize) -> String {
    match p {
        Pat::Wild => "_".into(),
        Pat::Bind => {
            *k += 1;
            format!("v{k}")
        }
        Pat::Int(n) => format!("{n}"),
        Pat::Incl(a, b) => format!("{a}..={b}"),
        Pat::Excl(a, b) => format!("{a}..{b}"),
        Pat::True => "true".into(),
        Pat::False => "false".into(),
        Pat::Tuple(ps) => format!("({})", ps.iter().map(|p| show(p, k)).collect::<Vec<_>>().join(", ")),
        Pat::EnumA => "E::A".into(),
        Pat::EnumB(p) => format!("E::B({})", show(p, k)),
        Pat::EnumC(p, q, r) => format!("E::C({}, {}, {})", show(p, k), show(q, k), show(r, k)),
        Pat::EnumCShort(p) => format!("E::C({})", show(p, k)),
        Pat::Struct(fs, rest) => {
            let mut parts: Vec<String> = fs.iter().map(|(i, p)| format!("{}: {}", S_FIELDS[*i], show(p, k))).collect();
            if *rest { parts.push("..".into()); }
            format!("S {{ {} }}", parts.join(", "))
        }
    }
}

fn ty_name(t: &Ty) -> String {
    match t {
        Ty::Int(n, _, _) => n.to_string(),
        Ty::Bool => "bool".into(),
        Ty::Tuple(ts) => format!("({})", ts.iter().map(ty_name).collect::<Vec<_>>().join(", ")),
        Ty::Enum => "E".into(),
        Ty::Struct => "S".into(),
    }
}

pub fn program(t: &Ty, arms: &[Pat]) -> String {
    let mut k = 0;
    let body = arms.iter().enumerate().map(|(i, p)| format!("        {} => {}u8,", show(p, &mut k), i + 1)).collect::<Vec<_>>().join("\n");
    format!("enum E {{ A, B(u8), C(bool, bool, bool) }}\nstruct S {{ a: u8, b: bool, c: i8 }}\npub fn main(x: {}, z: bool) -> u8 {{\n    match x {{\n{body}\n    }}\n}}", ty_name(t))
}

/// the same match with arm bodies that update a variable of the enclosing scope: only the body of the selected arm may take effect
pub fn program_mut(t: &Ty, arms: &[Pat]) -> String {
    let mut k = 0;
    let body = arms.iter().enumerate().map(|(i, p)| format!("        {} => {{ acc = acc * 2u16 + {}u16; {}u16 }}", show(p, &mut k), i + 1, i + 1)).collect::<Vec<_>>().join("\n");
    format!("enum E {{ A, B(u8), C(bool, bool, bool) }}\nstruct S {{ a: u8, b: bool, c: i8 }}\npub fn main(x: {}, z: bool) -> u16 {{\n    let mut acc = 1u16;\n    let r = match x {{\n{body}\n    }};\n    acc * 16u16 + r\n}}", ty_name(t))
}

/// representative values: whole domain for small integer types, boundary-induced regions otherwise
fn domain(t: &Ty, arms: &[Pat]) -> Vec<Val> {
    match t {
        Ty::Bool => vec![Val::Bool(false), Val::Bool(true)],
        Ty::Int(_, lo, hi) => {
            if (*hi as i128) - (*lo as i128) <= 255 {
                (*lo..=*hi).map(Val::Int).collect()
            } else {
                let mut pts = vec![*lo, lo.saturating_add(1), -1, 0, 1, hi.saturating_sub(1), *hi];
                fn collect(p: &Pat, pts: &mut Vec<i64>) {
                    match p {
                        Pat::Int(n) => pts.extend([n.saturating_sub(1), *n, n.saturating_add(1)]),
                        Pat::Incl(a, b) | Pat::Excl(a, b) => pts.extend([a.saturating_sub(1), *a, a.saturating_add(1), b.saturating_sub(1), *b, b.saturating_add(1)]),
                        Pat::Tuple(ps) => ps.iter().for_each(|p| collect(p, pts)),
                        Pat::EnumB(p) => collect(p, pts),
                        _ => {}
                    }
                }
                arms.iter().for_each(|p| collect(p, &mut pts));
                pts.retain(|x| x >= lo && x <= hi);
                pts.sort();
                pts.dedup();
                pts.into_iter().map(Val::Int).collect()
            }
        }
        Ty::Tuple(ts) => {
            let mut res = vec![vec![]];
            for (i, t) in ts.iter().enumerate() {
                let sub: Vec<Pat> = arms.iter().filter_map(|p| if let Pat::Tuple(ps) = p { ps.get(i).cloned() } else { None }).collect();
                let d = domain(t, &sub);
                let mut next = vec![];
                for r in &res {
                    for v in &d {
                        let mut r2 = r.clone();
                        r2.push(v.clone());
                        next.push(r2);
                    }
                }
                res = next;
            }
            res.into_iter().map(Val::Tuple).collect()
        }
        Ty::Struct => {
            let sub = |i: usize| -> Vec<Pat> { arms.iter().filter_map(|p| if let Pat::Struct(fs, _) = p { Some(fs.iter().filter(|(j, _)| *j == i).map(|(_, q)| q.clone()).collect::<Vec<_>>()) } else { None }).flatten().collect() };
            let (da, db, dc) = (domain(&s_field_ty(0), &sub(0)), domain(&s_field_ty(1), &sub(1)), domain(&s_field_ty(2), &sub(2)));
            // the u8 / i8 fields have 256 values each: boundary-induced representatives keep the product small
            let reps = |d: Vec<Val>, ps: Vec<Pat>| -> Vec<Val> {
                let mut pts: Vec<i64> = vec![];
                for v in &d { if let Val::Int(x) = v { pts.push(*x); } }
                let mut keep: Vec<i64> = vec![pts[0], *pts.last().unwrap(), 0.max(pts[0]), (-1i64).max(pts[0]), 1.max(pts[0])];
                for p in &ps { match p { Pat::Int(n) => keep.extend([n - 1, *n, n + 1]), Pat::Incl(a, b) | Pat::Excl(a, b) => keep.extend([a - 1, *a, a + 1, b - 1, *b, b + 1]), _ => {} } }
                keep.retain(|x| pts.contains(x));
                keep.sort(); keep.dedup();
                keep.into_iter().map(Val::Int).collect()
            };
            let (ra, rc) = (reps(da, sub(0)), reps(dc, sub(2)));
            let mut out = vec![];
            for a in &ra { for b in &db { for c in &rc {
                if let (Val::Int(a), Val::Bool(b), Val::Int(c)) = (a, b, c) { out.push(Val::S(*a, *b, *c)); }
            } } }
            out
        }
        Ty::Enum => {
            let mut v = vec![Val::A];
            v.extend((0..=255).map(Val::B));
            for a in [false, true] {
                for b in [false, true] {
                    for c in [false, true] {
                        v.push(Val::C(a, b, c));
                    }
                }
            }
            v
        }
    }
}

fn int_bits(name: &str) -> u32 {
    match name {
        "u8" | "i8" => 8,
        "u16" | "i16" => 16,
        "u32" | "i32" => 32,
        _ => 64,
    }
}

fn encode(t: &Ty, v: &Val, out: &mut Vec<bool>) {
    match (t, v) {
        (Ty::Bool, Val::Bool(b)) => out.push(*b),
        (Ty::Int(n, _, _), Val::Int(x)) => {
            let bits = int_bits(n);
            for i in 0..bits {
                out.push((x >> (bits - 1 - i)) & 1 == 1);
            }
        }
        (Ty::Tuple(ts), Val::Tuple(vs)) => ts.iter().zip(vs).for_each(|(t, v)| encode(t, v, out)),
        (Ty::Enum, v) => {
            // 2 tag bits, 8 payload bits
            let start = out.len();
            match v {
                Val::A => out.extend([false, false]),
                Val::B(x) => {
                    out.extend([false, true]);
                    for i in 0..8 {
                        out.push((x >> (7 - i)) & 1 == 1);
                    }
                }
                Val::C(a, b, c) => out.extend([true, false, *a, *b, *c]),
                _ => panic!(),
            }
            while out.len() < start + 10 {
                out.push(false);
            }
        }
        (Ty::Struct, Val::S(a, b, c)) => {
            // fields in the order of the definition (which is also alphabetical): a: u8, b: bool, c: i8
            for i in 0..8 { out.push((a >> (7 - i)) & 1 == 1); }
            out.push(*b);
            for i in 0..8 { out.push((c >> (7 - i)) & 1 == 1); }
        }
        _ => panic!("value does not match type"),
    }
}

/// does the pattern have the shape of the type (tuple arity, constructor kinds)?
fn well_shaped(t: &Ty, p: &Pat) -> bool {
    match (t, p) {
        (_, Pat::Wild | Pat::Bind) => true,
        (Ty::Int(..), Pat::Int(_) | Pat::Incl(..) | Pat::Excl(..)) => true,
        (Ty::Bool, Pat::True | Pat::False) => true,
        (Ty::Tuple(ts), Pat::Tuple(ps)) => ts.len() == ps.len() && ts.iter().zip(ps).all(|(t, p)| well_shaped(t, p)),
        (Ty::Enum, Pat::EnumA) => true,
        (Ty::Enum, Pat::EnumB(q)) => well_shaped(&Ty::Int("u8", 0, 255), q),
        (Ty::Enum, Pat::EnumC(a, b, c)) => well_shaped(&Ty::Bool, a) && well_shaped(&Ty::Bool, b) && well_shaped(&Ty::Bool, c),
        (Ty::Struct, Pat::Struct(fs, _)) => fs.iter().all(|(i, q)| well_shaped(&s_field_ty(*i), q)),
        _ => false,
    }
}

/// the missing cases of a PatternsAreNotExhaustive error, converted to the model's patterns (None if a case uses a form the
/// model does not have)
fn missing_cases(e: &garble_lang::Error) -> Option<Vec<Pat>> {
    use garble_lang::ast::{Pattern, PatternEnum, Type};
    use garble_lang::check::TypeErrorEnum;
    fn conv(p: &Pattern<Type>) -> Option<Pat> {
        Some(match &p.0 {
            PatternEnum::Identifier(_) => Pat::Wild,
            PatternEnum::True => Pat::True,
            PatternEnum::False => Pat::False,
            PatternEnum::NumUnsigned(n, _) => Pat::Int(i64::try_from(*n).ok()?),
            PatternEnum::NumSigned(n, _) => Pat::Int(*n),
            PatternEnum::UnsignedInclusiveRange(a, b, _) => Pat::Incl(i64::try_from(*a).ok()?, i64::try_from(*b).ok()?),
            PatternEnum::SignedInclusiveRange(a, b, _) => Pat::Incl(*a, *b),
            PatternEnum::Tuple(fs) => Pat::Tuple(fs.iter().map(conv).collect::<Option<Vec<_>>>()?),
            PatternEnum::Struct(_, fs) | PatternEnum::StructIgnoreRemaining(_, fs) => {
                let mut out = vec![];
                for (name, q) in fs {
                    out.push((S_FIELDS.iter().position(|f| f == name)?, conv(q)?));
                }
                Pat::Struct(out, true)
            }
            PatternEnum::EnumUnit(_, v) if v == "A" => Pat::EnumA,
            PatternEnum::EnumTuple(_, v, fs) if v == "B" && fs.len() == 1 => Pat::EnumB(Box::new(conv(&fs[0])?)),
            PatternEnum::EnumTuple(_, v, fs) if v == "C" && fs.len() == 3 => Pat::EnumC(Box::new(conv(&fs[0])?), Box::new(conv(&fs[1])?), Box::new(conv(&fs[2])?)),
            _ => return None,
        })
    }
    if let garble_lang::Error::CompileTimeError(garble_lang::CompileTimeError::TypeError(errs)) = e {
        for te in errs {
            if let TypeErrorEnum::PatternsAreNotExhaustive(stacks) = te.0.as_ref() {
                return stacks.iter().map(|st| if st.len() == 1 { conv(&st[0]) } else { None }).collect();
            }
        }
    }
    None
}

pub fn check_case(t: &Ty, arms: &[Pat]) -> Result<bool, String> {
    let src = program(t, arms);
    let dom = domain(t, arms);
    let first: Vec<Option<usize>> = dom.iter().map(|v| arms.iter().position(|p| matches(p, v))).collect();
    let exhaustive = first.iter().all(|f| f.is_some());
    let checked = match std::panic::catch_unwind(|| garble_lang::check(&src)) {
        Ok(r) => r,
        Err(_) => return Err(format!("the type checker panics on this match (it must accept it or reject it):\n{src}")),
    };
    match (&checked, exhaustive) {
        (Err(e), true) => {
            let msg = format!("{e:?}");
            if msg.contains("PatternsAreNotExhaustive") {
                return Err(format!("the arms cover every value of {} but the match is rejected as non-exhaustive:\n{src}", ty_name(t)));
            }
            return Ok(false); // rejected for another reason (e.g. unreachable / typing rule): not this property
        }
        (Ok(_), false) => {
            let k = first.iter().position(|f| f.is_none()).unwrap();
            return Err(format!("no arm matches {:?} but the match is accepted as exhaustive:\n{src}", dom[k]));
        }
        (Err(e), false) => {
            // every reported missing case denotes at least one value, and only values that no arm matches
            if let Some(ws) = missing_cases(e) {
                for w in &ws {
                    if !well_shaped(t, w) {
                        return Err(format!("the reported missing case {} is not a pattern of type {}:\n{src}", show(w, &mut 0), ty_name(t)));
                    }
                    let mut all = arms.to_vec();
                    all.push(w.clone());
                    let wdom = domain(t, &all);
                    let hit: Vec<&Val> = wdom.iter().filter(|v| matches(w, v)).collect();
                    if hit.is_empty() {
                        return Err(format!("the reported missing case {} denotes no value of {}:\n{src}", show(w, &mut 0), ty_name(t)));
                    }
                    if let Some(v) = hit.iter().find(|v| arms.iter().any(|p| matches(p, v))) {
                        return Err(format!("the reported missing case {} contains {:?}, which an arm matches:\n{src}", show(w, &mut 0), v));
                    }
                }
            }
            return Ok(true);
        }
        (Ok(_), true) => {}
    }
    let prg = garble_lang::compile(&src).map_err(|e| format!("accepted program does not compile: {e:?}\n{src}"))?;
    for (v, f) in dom.iter().zip(&first) {
        let mut bits = vec![];
        encode(t, v, &mut bits);
        let out = prg.circuit.eval(&[bits, vec![false]]);
        if out[0] {
            return Err(format!("match on {v:?} panics:\n{src}"));
        }
        let mut r = 0usize;
        for b in &out[161..] {
            r = (r << 1) | (*b as usize);
        }
        if r != f.unwrap() + 1 {
            return Err(format!("on {v:?} the first matching arm is #{}, the circuit returns {r}:\n{src}", f.unwrap() + 1));
        }
    }
    // arm bodies with an effect on an outer variable: the effect of the selected arm only
    let src2 = program_mut(t, arms);
    let prg2 = garble_lang::compile(&src2).map_err(|e| format!("accepted program does not compile: {e:?}\n{src2}"))?;
    for (v, f) in dom.iter().zip(&first).step_by(if dom.len() > 64 { 7 } else { 1 }) {
        let mut bits = vec![];
        encode(t, v, &mut bits);
        let out = prg2.circuit.eval(&[bits, vec![false]]);
        let mut r = 0usize;
        for b in &out[161..] {
            r = (r << 1) | (*b as usize);
        }
        let k = f.unwrap() + 1;
        if out[0] || r != (2 + k) * 16 + k {
            return Err(format!("on {v:?} arm #{k} is selected: expected acc = {} and result {k}, the circuit returns acc * 16 + r = {r} (panic {}):\n{src2}", 2 + k, out[0]));
        }
    }
    Ok(true)
}

fn rand_int_pat(rng: &mut Rng, lo: i64, hi: i64) -> Pat {
    let pick = |rng: &mut Rng| -> i64 {
        match rng.below(6) {
            0 => lo,
            1 => hi,
            2 => 0i64.clamp(lo, hi),
            3 => (-1i64).clamp(lo, hi),
            _ => {
                let span = (hi as i128 - lo as i128 + 1) as u128;
                let small = lo.max(-20) as i128 + (rng.next() as u128 % span.min(41)) as i128;
                (small.clamp(lo as i128, hi as i128)) as i64
            }
        }
    };
    let a = pick(rng);
    let mut b = pick(rng);
    if hi < i64::MAX / 4 && rng.below(12) == 0 {
        // a literal / upper bound that is not a value of the type (must be refused or never match)
        b = hi + 1 + (rng.next() % 300) as i64;
    }
    let (a, b) = (a.min(b), a.max(b));
    match rng.below(8) {
        0 => Pat::Wild,
        1 => Pat::Bind,
        2 => Pat::Int(a),
        3 => Pat::Int(b),
        4 | 5 => Pat::Incl(a, b),
        _ => {
            if a < b { Pat::Excl(a, b) } else { Pat::Incl(a, b) }
        }
    }
}

fn rand_pat(rng: &mut Rng, t: &Ty) -> Pat {
    match t {
        Ty::Int(_, lo, hi) => rand_int_pat(rng, *lo, *hi),
        Ty::Bool => match rng.below(4) {
            0 => Pat::Wild,
            1 => Pat::True,
            2 => Pat::False,
            _ => Pat::Bind,
        },
        Ty::Tuple(ts) => {
            if rng.below(6) == 0 { Pat::Wild } else {
                let mut ps: Vec<Pat> = ts.iter().map(|t| rand_pat(rng, t)).collect();
                if rng.below(14) == 0 { ps.pop(); } // too few components: ill-typed
                Pat::Tuple(ps)
            }
        }
        Ty::Struct => {
            if rng.below(7) == 0 { return Pat::Wild; }
            // a random subset of the fields in a random order; `..` whenever a field is left out (and sometimes anyway)
            let mut idx = vec![0usize, 1, 2];
            for i in (1..3).rev() { let j = rng.below(i + 1); idx.swap(i, j); }
            let keep = 1 + rng.below(3);
            let mut fs: Vec<(usize, Pat)> = idx[..keep].iter().map(|i| (*i, rand_pat(rng, &s_field_ty(*i)))).collect();
            if rng.below(8) == 0 {
                // a field named twice (read as: both patterns must match): must be refused, or at least decided consistently
                let i = fs[rng.below(fs.len())].0;
                fs.push((i, rand_pat(rng, &s_field_ty(i))));
            }
            Pat::Struct(fs, keep < 3 || rng.below(4) == 0)
        }
        Ty::Enum => match rng.below(5) {
            0 => Pat::Wild,
            1 => Pat::EnumA,
            2 | 3 => Pat::EnumB(Box::new(rand_int_pat(rng, 0, 255))),
            _ => {
                if rng.below(8) == 0 { Pat::EnumCShort(Box::new(rand_pat(rng, &Ty::Bool))) } else { Pat::EnumC(Box::new(rand_pat(rng, &Ty::Bool)), Box::new(rand_pat(rng, &Ty::Bool)), Box::new(rand_pat(rng, &Ty::Bool))) }
            }
        },
    }
}

pub fn types() -> Vec<Ty> {
    vec![
        Ty::Int("u8", 0, 255),
        Ty::Int("i8", -128, 127),
        Ty::Int("u16", 0, 65535),
        Ty::Int("i16", -32768, 32767),
        Ty::Int("i32", i32::MIN as i64, i32::MAX as i64),
        Ty::Int("u32", 0, u32::MAX as i64),
        Ty::Int("i64", i64::MIN, i64::MAX),
        Ty::Bool,
        Ty::Tuple(vec![Ty::Bool, Ty::Int("i8", -128, 127)]),
        Ty::Tuple(vec![Ty::Int("u8", 0, 255), Ty::Bool, Ty::Bool]),
        Ty::Enum,
        Ty::Tuple(vec![Ty::Enum, Ty::Bool]),
        Ty::Struct,
        Ty::Tuple(vec![Ty::Struct, Ty::Bool]),
    ]
}

/// directed cases: partitions of the whole domain into adjacent ranges (must be accepted)
fn directed(t: &Ty) -> Vec<Vec<Pat>> {
    if let Ty::Int(_, lo, hi) = t {
        let mid = if *lo < 0 { 0 } else { lo + (hi - lo) / 2 };
        if *hi == i64::MAX {
            return vec![
                vec![Pat::Incl(*lo, -1), Pat::Incl(0, *hi)],
                vec![Pat::Int(*lo), Pat::Incl(5, *hi)],
                vec![Pat::Incl(*lo, -10), Pat::Incl(10, *hi)],
                vec![Pat::Incl(5, *hi)],
                vec![Pat::Incl(*lo, -1), Pat::Incl(1, *hi)],
                vec![Pat::Incl(*lo, -1), Pat::Int(0), Pat::Incl(1, *hi)],
                vec![Pat::Incl(*lo + 1, -1), Pat::Int(0), Pat::Incl(1, *hi)],
                vec![Pat::Incl(*lo, -1), Pat::Int(0), Pat::Incl(1, *hi - 1)],
                vec![Pat::Int(*lo), Pat::Incl(*lo + 1, -1), Pat::Int(0), Pat::Incl(1, *hi)],
            ];
        }
        let mut out_of_range = vec![];
        if *hi < i64::MAX / 4 {
            // literals and range bounds outside the scrutinee type (between signed and unsigned literals, beyond MAX):
            // they denote no value of the type, so they must be refused or never match
            let w = *hi - *lo + 1; // 2^bits
            out_of_range = vec![
                vec![Pat::Int(*hi + 1), Pat::Wild],
                vec![Pat::Int(*lo + w + 44), Pat::Wild],
                vec![Pat::Incl(*hi - 5, *hi + 7), Pat::Wild],
                vec![Pat::Incl(*hi + 1, *hi + w / 2), Pat::Wild],
                vec![Pat::Incl(*lo, *hi + w)],
                vec![Pat::Incl(*lo, *hi + w), Pat::Wild],
            ];
        }
        let mut v = vec![
            vec![Pat::Incl(*lo, mid - 1), Pat::Incl(mid, *hi)],
            vec![Pat::Excl(*lo, mid), Pat::Incl(mid, *hi)],
            vec![Pat::Int(*lo), Pat::Incl(lo + 1, hi - 1), Pat::Int(*hi)],
            vec![Pat::Incl(mid, *hi), Pat::Incl(*lo, mid - 1)],
            vec![Pat::Incl(*lo, mid), Pat::Incl(mid, *hi)],
            vec![Pat::Incl(*lo, mid - 1), Pat::Incl(mid + 1, *hi)],
            vec![Pat::Int(mid), Pat::Incl(*lo, *hi)],
            vec![Pat::Incl(*lo, -1i64.max(*lo)), Pat::Int(0i64.clamp(*lo, *hi)), Pat::Incl(1i64.clamp(*lo, *hi), *hi)],
        ];
        v.extend(out_of_range);
        if *lo < 0 {
            // signed scrutinee, non-negative (unsuffixed) literals and ranges, gaps that straddle 0: must be rejected
            v.push(vec![Pat::Int(*lo), Pat::Incl(5, *hi)]);
            v.push(vec![Pat::Incl(*lo, -10), Pat::Incl(10, *hi)]);
            v.push(vec![Pat::Incl(5, *hi)]);
            v.push(vec![Pat::Incl(*lo, -1), Pat::Incl(1, *hi)]);
            v.push(vec![Pat::Incl(*lo, -2), Pat::Int(0), Pat::Incl(1, *hi)]);
            v.push(vec![Pat::Int(*lo), Pat::Int(0), Pat::Incl(1, *hi)]);
            v.push(vec![Pat::Incl(*lo, -1), Pat::Int(0), Pat::Incl(2, *hi)]);
            // ... and the exhaustive variants must be accepted
            v.push(vec![Pat::Incl(*lo, -1), Pat::Int(0), Pat::Incl(1, *hi)]);
            v.push(vec![Pat::Int(*lo), Pat::Incl(*lo + 1, -1), Pat::Incl(0, *hi)]);
        }
        // everything but one end of the type: must be rejected (the boundary values are where a one-sided or symmetric range slips)
        v.push(vec![Pat::Incl(*lo + 1, *hi)]);
        v.push(vec![Pat::Incl(*lo, *hi - 1)]);
        v.push(vec![Pat::Incl(*lo + 1, mid - 1), Pat::Int(mid), Pat::Incl(mid + 1, *hi)]);
        v.push(vec![Pat::Incl(*lo, mid - 1), Pat::Int(mid), Pat::Incl(mid + 1, *hi - 1)]);
        v.push(vec![Pat::Incl(*lo + 1, mid), Pat::Excl(mid, *hi), Pat::Int(*hi)]);
        // ... and with the end added as a literal: accepted
        v.push(vec![Pat::Int(*lo), Pat::Incl(*lo + 1, mid - 1), Pat::Int(mid), Pat::Incl(mid + 1, *hi)]);
        v.push(vec![Pat::Incl(*lo, mid - 1), Pat::Int(mid), Pat::Incl(mid + 1, *hi - 1), Pat::Int(*hi)]);
        // empty and inverted ranges match nothing
        v.push(vec![Pat::Excl(*lo, *lo), Pat::Wild]);
        v.push(vec![Pat::Excl(mid, mid), Pat::Wild]);
        v.push(vec![Pat::Incl(mid + 3, mid), Pat::Wild]);
        v
    } else if let Ty::Tuple(ts) = t {
        // a tuple with an integer component: the integer's directed arm lists, the other components as wildcards
        let mut out = vec![];
        for (i, c) in ts.iter().enumerate() {
            if let Ty::Int(..) = c {
                for arms in directed(c) {
                    out.push(arms.into_iter().map(|p| Pat::Tuple((0..ts.len()).map(|j| if j == i { p.clone() } else { Pat::Wild }).collect())).collect());
                }
            }
        }
        // a specific first component, then a catch-all whose OTHER component is restricted (not exhaustive), and the same completed by a full
        // catch-all (exhaustive): the values that the first arm leaves over must be decided by the remaining columns of the catch-all arm
        fn samples(t: &Ty) -> Vec<Pat> {
            match t {
                Ty::Bool => vec![Pat::True, Pat::False],
                Ty::Int(_, lo, hi) => vec![Pat::Int(*lo), Pat::Incl(*lo, *lo / 2 + *hi / 2)],
                Ty::Enum => vec![Pat::EnumA, Pat::EnumB(Box::new(Pat::Wild)), Pat::EnumC(Box::new(Pat::Wild), Box::new(Pat::Wild), Box::new(Pat::Wild))],
                Ty::Struct => vec![Pat::Struct(vec![(0, Pat::Int(0))], true), Pat::Struct(vec![(1, Pat::True)], true)],
                _ => vec![],
            }
        }
        if ts.len() >= 2 {
            let wilds = |k: usize, p: &Pat| Pat::Tuple((0..ts.len()).map(|j| if j == k { p.clone() } else { Pat::Wild }).collect());
            for (a, b) in [(0usize, 1usize), (1, 0)] {
                for pa in samples(&ts[a]) {
                    for pb in samples(&ts[b]) {
                        out.push(vec![wilds(a, &pa), wilds(b, &pb)]);
                        out.push(vec![wilds(a, &pa), wilds(b, &pb), Pat::Wild]);
                    }
                }
            }
        }
        out
    } else {
        vec![]
    }
}

pub fn known_f1(t: &Ty, arms: &[Pat], what: &str) -> bool {
    // C08-F1: signed integer scrutinee (also inside tuples), arms covering every value, rejected as non-exhaustive
    fn has_signed(t: &Ty) -> bool {
        match t {
            Ty::Int(_, lo, _) => *lo < 0,
            Ty::Tuple(ts) => ts.iter().any(has_signed),
            _ => false,
        }
    }
    let _ = arms;
    has_signed(t) && what.starts_with("the arms cover every value")
}

pub fn search(args: &[String]) -> i32 {
    if std::env::var("REPLAY_DEBUG").is_err() { std::panic::set_hook(Box::new(|_| {})); }
    let seed = arg_u64(args, "--seed", 1);
    let random = arg_u64(args, "--random", 1500);
    let known = arg(args, "--known").map(|k| k.split(',').any(|x| x == "C08-F1")).unwrap_or(false);
    let mut rng = Rng(seed ^ 0xC08);
    let mut n = 0u64;
    let mut decided = 0u64;
    let mut known_hits = 0u64;
    let mut known_example = String::new();
    let mut distinct = std::collections::HashSet::new();
    let mut samples: Vec<String> = vec![];
    let mut run = |t: &Ty, arms: &[Pat], n: &mut u64, decided: &mut u64| -> Option<String> {
        *n += 1;
        match check_case(t, arms) {
            Ok(d) => {
                *decided += d as u64;
                if d {
                    let src = program(t, arms);
                    if samples.len() < 3 && arms.len() >= 2 {
                        samples.push(src.replace('\n', " ").replace('"', "'"));
                    }
                    distinct.insert(src);
                }
                None
            }
            Err(w) => {
                if known && known_f1(t, arms, &w) {
                    known_hits += 1;
                    if known_example.is_empty() {
                        known_example = format!("match x: {} {{ {} }}", ty_name(t), {
                            let mut k = 0;
                            arms.iter().map(|p| show(p, &mut k)).collect::<Vec<_>>().join(" | ")
                        });
                    }
                    None
                } else {
                    Some(w)
                }
            }
        }
    };
    for t in types() {
        for arms in directed(&t) {
            if let Some(w) = run(&t, &arms, &mut n, &mut decided) {
                write_out(args, &format!("kind: c08-match\nseed: {seed}\nobserved: {w}\n"));
                return 3;
            }
        }
    }
    for _ in 0..random {
        let ts = types();
        let t = &ts[rng.below(ts.len())];
        let k = 1 + rng.below(5);
        let mut arms: Vec<Pat> = (0..k).map(|_| rand_pat(&mut rng, t)).collect();
        if rng.below(3) == 0 {
            arms.push(Pat::Wild);
        }
        if let Some(w) = run(t, &arms, &mut n, &mut decided) {
            write_out(args, &format!("kind: c08-match\nseed: {seed}\nobserved: {w}\n"));
            return 3;
        }
    }
    if known_hits > 0 {
        println!("known-finding: C08-F1 cases={known_hits} example={known_example}");
    }
    println!(
        "stats-json: {{\"evaluations\": {n}, \"distinct_nontrivial\": {}, \"rule\": \"random and directed arm lists (1-6 arms of literal / inclusive / exclusive range / wildcard / binding / tuple / struct (any field order, `..`) / enum patterns) over 14 scrutinee types; non-trivial = the checker gives an exhaustiveness verdict (no other type error); distinct = different program text\", \"samples\": [{}]}}",
        distinct.len(),
        samples.iter().map(|s| format!("\"{s}\"")).collect::<Vec<_>>().join(", ")
    );
    println!("c08 search: {n} arm lists over {} scrutinee types ({decided} with an exhaustiveness verdict compared against enumeration; accepted ones evaluated on every representative value)", types().len());
    0
}

pub fn replay(text: &str) -> i32 {
    let seed = field(text, "seed").unwrap_or_else(|| "1".into());
    let r = search(&["--seed".to_string(), seed]);
    if r == 3 {
        println!("replay: REPRODUCED");
    }
    r
}
