//! C03: integer operators and casts through the public API (compile + circuit eval) against exact
//! two's-complement arithmetic.  Used as the bounded stand-in for the parts no contract reaches
//! (multiplier, divider, shifter, the composition inside `compile`) and as witness search / replay.

use crate::util::{arg, arg_u64, field, write_out, Rng};
use garble_lang::{compile, CompileOptions};

#[derive(Clone, Copy, PartialEq, Debug)]
pub struct Ty {
    pub bits: u32,
    pub signed: bool,
    pub name: &'static str,
}

pub const TYPES: [Ty; 9] = [
    Ty { bits: 8, signed: false, name: "u8" },
    Ty { bits: 8, signed: true, name: "i8" },
    Ty { bits: 16, signed: false, name: "u16" },
    Ty { bits: 16, signed: true, name: "i16" },
    Ty { bits: 32, signed: false, name: "u32" },
    Ty { bits: 32, signed: true, name: "i32" },
    Ty { bits: 64, signed: false, name: "u64" },
    Ty { bits: 64, signed: true, name: "i64" },
    Ty { bits: 32, signed: false, name: "usize" },
];

impl Ty {
    pub fn min(&self) -> i128 {
        if self.signed { -(1i128 << (self.bits - 1)) } else { 0 }
    }
    pub fn max(&self) -> i128 {
        if self.signed { (1i128 << (self.bits - 1)) - 1 } else { (1i128 << self.bits) - 1 }
    }
    pub fn fits(&self, v: i128) -> bool {
        v >= self.min() && v <= self.max()
    }
    /// value of the low `bits` bits of v, interpreted in this type
    pub fn wrap(&self, v: i128) -> i128 {
        let m = 1i128 << self.bits;
        let mut r = v.rem_euclid(m);
        if self.signed && r >= (m >> 1) {
            r -= m;
        }
        r
    }
    pub fn by_name(n: &str) -> Option<Ty> {
        TYPES.iter().copied().find(|t| t.name == n)
    }
    pub fn encode(&self, v: i128) -> Vec<bool> {
        let u = v.rem_euclid(1i128 << self.bits) as u128;
        (0..self.bits).map(|i| (u >> (self.bits - 1 - i)) & 1 == 1).collect()
    }
    pub fn decode(&self, bits: &[bool]) -> i128 {
        let mut u: i128 = 0;
        for b in bits {
            u = (u << 1) | (*b as i128);
        }
        self.wrap(u)
    }
    pub fn lit(&self, v: i128) -> String {
        format!("{v}{}", self.name)
    }
}

pub const BIN_OPS: [&str; 16] = ["+", "-", "*", "/", "%", "&", "|", "^", "<<", ">>", "<", ">", "<=", ">=", "==", "!="];

#[derive(Debug, PartialEq, Clone)]
pub enum Outcome {
    Val(i128),
    Bool(bool),
    Overflow,
    DivByZero,
    /// either a value or an overflow panic is acceptable (MIN % -1)
    ValOrOverflow(i128),
}

/// exact semantics of `x op y` at type `t` (shift amount `y` is a u8)
pub fn expected_bin(op: &str, t: Ty, x: i128, y: i128) -> Outcome {
    let chk = |v: i128| if t.fits(v) { Outcome::Val(v) } else { Outcome::Overflow };
    match op {
        "+" => chk(x + y),
        "-" => chk(x - y),
        "*" => chk(x * y),
        "/" => {
            if y == 0 { Outcome::DivByZero } else { chk(x / y) }
        }
        "%" => {
            if y == 0 {
                Outcome::DivByZero
            } else if t.signed && x == t.min() && y == -1 {
                Outcome::ValOrOverflow(0)
            } else {
                Outcome::Val(x % y)
            }
        }
        "&" => Outcome::Val(t.wrap(x & y)),
        "|" => Outcome::Val(t.wrap(x | y)),
        "^" => Outcome::Val(t.wrap(x ^ y)),
        "<<" => {
            if y >= t.bits as i128 { Outcome::Overflow } else { Outcome::Val(t.wrap(x << y)) }
        }
        ">>" => {
            if y >= t.bits as i128 { Outcome::Overflow } else { Outcome::Val(x >> y) }
        }
        "<" => Outcome::Bool(x < y),
        ">" => Outcome::Bool(x > y),
        "<=" => Outcome::Bool(x <= y),
        ">=" => Outcome::Bool(x >= y),
        "==" => Outcome::Bool(x == y),
        "!=" => Outcome::Bool(x != y),
        _ => unreachable!(),
    }
}

pub fn expected_un(op: &str, t: Ty, x: i128) -> Outcome {
    match op {
        "-" => {
            if t.fits(-x) { Outcome::Val(-x) } else { Outcome::Overflow }
        }
        "!" => Outcome::Val(t.wrap(!x)),
        _ => unreachable!(),
    }
}

fn is_cmp(op: &str) -> bool {
    matches!(op, "<" | ">" | "<=" | ">=" | "==" | "!=")
}

pub struct Prog {
    pub src: String,
    circuit: garble_lang::circuit_type::CircuitType,
}

pub fn build(src: &str, dedup: bool, register: bool) -> Result<Prog, String> {
    let opts = CompileOptions {
        optimize_duplicate_gates: dedup,
        circuit_kind: if register { garble_lang::CircuitKind::Register } else { garble_lang::CircuitKind::Ssa },
        ..Default::default()
    };
    let _ = compile; // (plain compile == compile_with_options with defaults)
    match garble_lang::compile_with_options(src, opts) {
        Ok(p) => Ok(Prog { src: src.to_string(), circuit: p.circuit }),
        Err(e) => Err(format!("{e:?}")),
    }
}

/// Observed behaviour: Err(reason code) for a panic, Ok(result bits) otherwise
pub fn run(p: &Prog, args: &[Vec<bool>]) -> Result<Vec<bool>, usize> {
    let out = p.circuit.eval(args);
    if out[0] {
        let mut r = 0usize;
        for b in &out[1..33] {
            r = (r << 1) | (*b as usize);
        }
        Err(r)
    } else {
        Ok(out[161..].to_vec())
    }
}

pub fn check_outcome(t_res: Ty, exp: &Outcome, obs: &Result<Vec<bool>, usize>) -> Result<(), String> {
    let show = |o: &Result<Vec<bool>, usize>| match o {
        Err(1) => "panic Overflow".to_string(),
        Err(2) => "panic Division By Zero".to_string(),
        Err(3) => "panic Out Of Bounds".to_string(),
        Err(r) => format!("panic with reason code {r}"),
        Ok(bits) if bits.len() == 1 => format!("{}", bits[0]),
        Ok(bits) => format!("{}", t_res.decode(bits)),
    };
    let ok = match (exp, obs) {
        (Outcome::Val(v), Ok(bits)) => bits.len() == t_res.bits as usize && t_res.decode(bits) == *v,
        (Outcome::Bool(b), Ok(bits)) => bits.len() == 1 && bits[0] == *b,
        (Outcome::Overflow, Err(1)) => true,
        (Outcome::DivByZero, Err(2)) => true,
        (Outcome::ValOrOverflow(_), Err(1)) => true,
        (Outcome::ValOrOverflow(v), Ok(bits)) => t_res.decode(bits) == *v,
        _ => false,
    };
    if ok {
        Ok(())
    } else {
        Err(format!("expected {exp:?}, observed {}", show(obs)))
    }
}

#[derive(Clone, Debug)]
pub struct Case {
    pub kind: String, // bin | un | cast
    pub op: String,
    pub ty: String,
    pub ty2: String, // cast target
    pub mode: String, // vv | vc | cv
    pub x: i128,
    pub y: i128,
    pub dedup: bool,
    pub register: bool,
}

impl Case {
    fn source(&self) -> String {
        let t = Ty::by_name(&self.ty);
        match self.kind.as_str() {
            "bin" => {
                let t = t.unwrap();
                let shift = self.op == "<<" || self.op == ">>";
                let ty_y = if shift { "u8" } else { t.name };
                let res = if is_cmp(&self.op) { "bool" } else { t.name };
                let ylit = if shift { format!("{}u8", self.y) } else { t.lit(self.y) };
                match self.mode.as_str() {
                    "vv" => format!("pub fn main(x: {}, y: {ty_y}) -> {res} {{ x {} y }}", t.name, self.op),
                    "vc" => format!("pub fn main(x: {}) -> {res} {{ x {} {ylit} }}", t.name, self.op),
                    _ => format!("pub fn main(y: {ty_y}) -> {res} {{ {} {} y }}", t.lit(self.x), self.op),
                }
            }
            "un" => format!("pub fn main(x: {}) -> {} {{ {}x }}", self.ty, self.ty, self.op),
            _ => format!("pub fn main(x: {}) -> {} {{ x as {} }}", self.ty, self.ty2, self.ty2),
        }
    }

    fn args(&self) -> Vec<Vec<bool>> {
        if self.ty == "bool" {
            return vec![vec![self.x != 0]];
        }
        let t = Ty::by_name(&self.ty).unwrap();
        match self.kind.as_str() {
            "bin" => {
                let shift = self.op == "<<" || self.op == ">>";
                let ty_y = if shift { TYPES[0] } else { t };
                match self.mode.as_str() {
                    "vv" => vec![t.encode(self.x), ty_y.encode(self.y)],
                    "vc" => vec![t.encode(self.x)],
                    _ => vec![ty_y.encode(self.y)],
                }
            }
            _ => vec![t.encode(self.x)],
        }
    }

    fn expected(&self) -> (Ty, Outcome) {
        match self.kind.as_str() {
            "bin" => {
                let t = Ty::by_name(&self.ty).unwrap();
                (t, expected_bin(&self.op, t, self.x, self.y))
            }
            "un" => {
                let t = Ty::by_name(&self.ty).unwrap();
                (t, expected_un(&self.op, t, self.x))
            }
            _ => {
                // cast: bool -> int gives 0/1; int -> int truncates / extends like Rust `as`
                let t2 = Ty::by_name(&self.ty2).unwrap();
                (t2, Outcome::Val(t2.wrap(self.x)))
            }
        }
    }

    pub fn to_text(&self, what: &str) -> String {
        format!(
            "kind: c03-op\ncase: {}\nop: {}\nty: {}\nty2: {}\nmode: {}\nx: {}\ny: {}\ndedup: {}\nregister: {}\nprogram: {}\nobserved: {}\n",
            self.kind, self.op, self.ty, self.ty2, self.mode, self.x, self.y, self.dedup, self.register, self.source(), what
        )
    }
}

thread_local! {
    static KNOWN: std::cell::RefCell<(bool, u64, String)> = const { std::cell::RefCell::new((false, 0, String::new())) };
}

fn eval_case(c: &Case, cache: &mut std::collections::HashMap<(String, bool, bool), Result<Prog, String>>) -> Result<(), String> {
    let src = c.source();
    let key = (src.clone(), c.dedup, c.register);
    let p = cache.entry(key).or_insert_with(|| build(&src, c.dedup, c.register));
    let p = match p {
        Ok(p) => p,
        Err(e) => return Err(format!("program does not compile: {e}")),
    };
    let (t_res, exp) = c.expected();
    let obs = run(p, &c.args());
    let r = check_outcome(t_res, &exp, &obs);
    if r.is_err() && KNOWN.with(|k| k.borrow().0) && is_known_f1(c, &exp, &obs) {
        KNOWN.with(|k| {
            let mut k = k.borrow_mut();
            k.1 += 1;
            if k.2.is_empty() {
                k.2 = format!("`{}` with x={} y={}", c.source(), c.x, c.y);
            }
        });
        return Ok(());
    }
    r
}

fn boundary(t: Ty) -> Vec<i128> {
    let mut v = vec![t.min(), t.min() + 1, -2, -1, 0, 1, 2, 3, t.max() - 1, t.max(), t.max() / 2, t.max() / 2 + 1, 64, 7, t.bits as i128 - 1, t.bits as i128];
    v.retain(|x| t.fits(*x));
    v.sort();
    v.dedup();
    v
}

fn rand_val(rng: &mut Rng, t: Ty) -> i128 {
    match rng.below(4) {
        0 => {
            let b = boundary(t);
            b[rng.below(b.len())]
        }
        1 => t.wrap((rng.next() % 16) as i128 - 8),
        _ => t.wrap(rng.next() as i128),
    }
}

/// Known finding C03-F1 (known_findings.json): a signed multiplication by a negative literal constant c with
/// 2 <= |c| < bits is rewritten to -(x + .. + x); when the exact product is MIN the inner sum is 2^(bits-1) and
/// overflows although its negation is representable.  Matches exactly those cases and nothing else.
pub fn is_known_f1(c: &Case, exp: &Outcome, obs: &Result<Vec<bool>, usize>) -> bool {
    if c.kind != "bin" || c.op != "*" {
        return false;
    }
    let Some(t) = Ty::by_name(&c.ty) else { return false };
    let k = match c.mode.as_str() {
        "vc" => c.y,
        "cv" => c.x,
        _ => return false,
    };
    t.signed && k <= -2 && -k < t.bits as i128 && *exp == Outcome::Val(t.min()) && *obs == Err(1)
}

/// finding ids of operator/type classes that are recorded as known (see known_findings.json)
pub fn class_of(c: &Case) -> String {
    match c.kind.as_str() {
        "bin" => format!("{} {} {}", c.ty, c.op, c.mode),
        "un" => format!("{}{}", c.op, c.ty),
        _ => format!("{} as {}", c.ty, c.ty2),
    }
}

pub fn search(args: &[String]) -> i32 {
    let seed = arg_u64(args, "--seed", 1);
    if arg(args, "--known").map(|k| k.split(',').any(|x| x == "C03-F1")).unwrap_or(false) {
        KNOWN.with(|k| k.borrow_mut().0 = true);
    }
    let exhaustive8 = args.iter().any(|a| a == "--exhaustive8");
    let random = arg_u64(args, "--random", 3000);
    let consts = arg_u64(args, "--consts", 6) as usize;
    let only = arg(args, "--only"); // e.g. "add,sub,neg,cmp,cast,bit"
    let skip: Vec<String> = arg(args, "--skip-classes").map(|s| s.split(';').map(|x| x.trim().to_string()).collect()).unwrap_or_default();
    let want = |group: &str| only.as_ref().map(|o| o.split(',').any(|g| g == group)).unwrap_or(true);
    let group_of = |op: &str| match op {
        "+" => "add",
        "-" => "sub",
        "*" => "mul",
        "/" | "%" => "div",
        "<<" | ">>" => "shift",
        "&" | "|" | "^" => "bit",
        _ => "cmp",
    };
    let mut rng = Rng(seed ^ 0xC03);
    let mut cache = std::collections::HashMap::new();
    let mut n = 0u64;
    let mut fails: Vec<(Case, String)> = vec![];
    let mut seen_classes = std::collections::HashSet::new();
    let mut try_case = |c: Case, cache: &mut std::collections::HashMap<_, _>, fails: &mut Vec<(Case, String)>, n: &mut u64| {
        let cl = class_of(&c);
        if skip.contains(&cl) {
            return;
        }
        *n += 1;
        if let Err(w) = eval_case(&c, cache) {
            if seen_classes.insert(cl) {
                fails.push((c, w));
            }
        }
    };
    // unary and binary operators
    for t in TYPES {
        let small = t.bits == 8;
        if t.signed && want("neg") {
            let xs: Vec<i128> = if small { (t.min()..=t.max()).collect() } else { boundary(t) };
            for x in xs {
                try_case(Case { kind: "un".into(), op: "-".into(), ty: t.name.into(), ty2: String::new(), mode: "v".into(), x, y: 0, dedup: true, register: false }, &mut cache, &mut fails, &mut n);
            }
        }
        if want("bit") {
            for x in boundary(t) {
                try_case(Case { kind: "un".into(), op: "!".into(), ty: t.name.into(), ty2: String::new(), mode: "v".into(), x, y: 0, dedup: true, register: false }, &mut cache, &mut fails, &mut n);
            }
        }
        for op in BIN_OPS {
            if !want(group_of(op)) {
                continue;
            }
            let shift = op == "<<" || op == ">>";
            let ty_y = if shift { TYPES[0] } else { t };
            // var op var
            let pairs: Vec<(i128, i128)> = if small && exhaustive8 {
                let mut v = vec![];
                for x in t.min()..=t.max() {
                    for y in ty_y.min()..=ty_y.max() {
                        v.push((x, y));
                    }
                }
                v
            } else {
                let mut v = vec![];
                for x in boundary(t) {
                    for y in boundary(ty_y) {
                        v.push((x, y));
                    }
                }
                for _ in 0..(random / 40) {
                    v.push((rand_val(&mut rng, t), rand_val(&mut rng, ty_y)));
                }
                // operand pairs whose exact product is at or just beyond the bounds of the type (e.g. -3 * 43 = -129 = MIN - 1 for i8)
                for target in [t.min() - 1, t.min(), t.min() + 1, t.max() - 1, t.max(), t.max() + 1, -(t.max() + 2)] {
                    for d in [2i128, 3, 5, 7, 9, 11, 13, 17, 31, 33, 43, 127, 129, 331, 641, -2, -3, -5, -7, -9, -11, -13, -17, -31, -33, -43] {
                        if target % d == 0 {
                            let q = target / d;
                            if t.fits(d) && ty_y.fits(q) { v.push((d, q)); }
                            if t.fits(q) && ty_y.fits(d) { v.push((q, d)); }
                        }
                    }
                }
                v
            };
            for (x, y) in pairs {
                for (dedup, register) in [(true, false)] {
                    try_case(Case { kind: "bin".into(), op: op.into(), ty: t.name.into(), ty2: String::new(), mode: "vv".into(), x, y, dedup, register }, &mut cache, &mut fails, &mut n);
                }
            }
            // var op const / const op var: a few constants (boundary + random), boundary + random variables
            let mut cs = boundary(ty_y);
            let keep = |v: i128, t: Ty| v == t.min() || v == t.max() || (-2..=2).contains(&v);
            while cs.len() > consts && cs.iter().any(|v| !keep(*v, ty_y)) {
                let i = rng.below(cs.len());
                if !keep(cs[i], ty_y) {
                    cs.remove(i);
                }
            }
            for c in cs {
                for x in boundary(t).into_iter().chain((0..3).map(|_| rand_val(&mut rng, t))) {
                    try_case(Case { kind: "bin".into(), op: op.into(), ty: t.name.into(), ty2: String::new(), mode: "vc".into(), x, y: c, dedup: true, register: false }, &mut cache, &mut fails, &mut n);
                }
            }
            let mut cs = boundary(t);
            while cs.len() > consts && cs.iter().any(|v| !keep(*v, t)) {
                let i = rng.below(cs.len());
                if !keep(cs[i], t) {
                    cs.remove(i);
                }
            }
            for c in cs {
                for y in boundary(ty_y).into_iter().chain((0..3).map(|_| rand_val(&mut rng, ty_y))) {
                    try_case(Case { kind: "bin".into(), op: op.into(), ty: t.name.into(), ty2: String::new(), mode: "cv".into(), x: c, y, dedup: true, register: false }, &mut cache, &mut fails, &mut n);
                }
            }
            cache.retain(|k, _| !k.0.contains("main(x") || k.0.contains(", y:")); // drop per-constant programs
        }
    }
    // casts between every ordered pair of primitive types
    if want("cast") {
        for t1 in TYPES {
            for t2 in TYPES {
                let xs: Vec<i128> = if t1.bits <= 16 && exhaustive8 { (t1.min()..=t1.max()).collect() } else {
                    boundary(t1).into_iter().chain((0..20).map(|_| rand_val(&mut rng, t1))).collect() };
                for x in xs {
                    try_case(Case { kind: "cast".into(), op: "as".into(), ty: t1.name.into(), ty2: t2.name.into(), mode: "v".into(), x, y: 0, dedup: true, register: false }, &mut cache, &mut fails, &mut n);
                }
            }
            for x in [0i128, 1] {
                try_case(Case { kind: "cast".into(), op: "as".into(), ty: "bool".into(), ty2: t1.name.into(), mode: "v".into(), x, y: 0, dedup: true, register: false }, &mut cache, &mut fails, &mut n);
            }
        }
    }
    KNOWN.with(|k| {
        let k = k.borrow();
        if k.1 > 0 {
            println!("known-finding: C03-F1 cases={} example={}", k.1, k.2);
        }
    });
    if fails.is_empty() {
        println!("c03 search: {n} operator / cast evaluations through compile + eval agree with exact arithmetic");
        return 0;
    }
    let mut text = fails[0].0.to_text(&fails[0].1);
    text.push_str(&format!("failing_classes: {}\n", fails.iter().map(|(c, _)| class_of(c)).collect::<Vec<_>>().join("; ")));
    for (c, w) in fails.iter().skip(1).take(40) {
        text.push_str(&format!("also: {} | x={} y={} | {}\n", c.source(), c.x, c.y, w));
    }
    write_out(args, &text);
    3
}

pub fn replay(text: &str) -> i32 {
    let g = |k: &str| field(text, k).unwrap_or_default();
    let c = Case {
        kind: g("case"),
        op: g("op"),
        ty: g("ty"),
        ty2: g("ty2"),
        mode: g("mode"),
        x: g("x").parse().unwrap_or(0),
        y: g("y").parse().unwrap_or(0),
        dedup: g("dedup") != "false",
        register: g("register") == "true",
    };
    let mut cache = std::collections::HashMap::new();
    match eval_case(&c, &mut cache) {
        Ok(()) => {
            println!("replay: `{}` with x={} y={} agrees with exact arithmetic", c.source(), c.x, c.y);
            0
        }
        Err(w) => {
            println!("replay: REPRODUCED: `{}` with x={} y={}: {w}", c.source(), c.x, c.y);
            3
        }
    }
}
