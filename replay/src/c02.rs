//! C02: differential check of the real panic-record machinery (push_panic_if, mux_panic,
//! replace_panic_with, build, EvalPanic layout) against a reference evaluation of the same operation tree.

use crate::util::{arg_u64, field, write_out, Rng};
use garble_lang::token::MetaInfo;
use garble_lang::verif_hooks::Builder;

#[derive(Clone, Debug)]
pub enum POp {
    /// potentially failing operation: panics with `reason` at line `line` iff wire `cond` is true
    Panic { cond: usize, reason: u8, line: usize },
    /// if/else on wire `cond`
    Branch { cond: usize, t: Vec<POp>, f: Vec<POp> },
}

fn fmt_ops(ops: &[POp]) -> String {
    ops.iter()
        .map(|o| match o {
            POp::Panic { cond, reason, line } => format!("p {cond} {reason} {line}"),
            POp::Branch { cond, t, f } => format!("if {cond} {{ {} }} else {{ {} }}", fmt_ops(t), fmt_ops(f)),
        })
        .collect::<Vec<_>>()
        .join(" ; ")
}

fn parse_ops(toks: &[&str], pos: &mut usize) -> Vec<POp> {
    let mut ops = vec![];
    while *pos < toks.len() {
        match toks[*pos] {
            "p" => {
                let cond = toks[*pos + 1].parse().unwrap_or(0);
                let reason = toks[*pos + 2].parse().unwrap_or(1);
                let line = toks[*pos + 3].parse().unwrap_or(0);
                ops.push(POp::Panic { cond, reason, line });
                *pos += 4;
            }
            "if" => {
                let cond = toks[*pos + 1].parse().unwrap_or(0);
                *pos += 3; // if c {
                let t = parse_ops(toks, pos);
                *pos += 3; // } else {
                let f = parse_ops(toks, pos);
                *pos += 1; // }
                ops.push(POp::Branch { cond, t, f });
            }
            ";" => *pos += 1,
            _ => break, // `}`
        }
    }
    ops
}

/// condition slots: 0 = false, 1 = true, 2..2+k inputs, then xor / and / or / not of the first inputs
fn cond_wires(b: &mut Builder, k: usize) -> (Vec<usize>, Vec<Box<dyn Fn(usize) -> bool>>) {
    let mut wires: Vec<usize> = vec![0, 1];
    let mut sem: Vec<Box<dyn Fn(usize) -> bool>> = vec![Box::new(|_| false), Box::new(|_| true)];
    for i in 0..k {
        wires.push(2 + i);
        sem.push(Box::new(move |a| (a >> i) & 1 == 1));
    }
    if k >= 2 {
        wires.push(b.push_xor(2, 3));
        sem.push(Box::new(|a| (a & 1 == 1) ^ ((a >> 1) & 1 == 1)));
        wires.push(b.push_and(2, 3));
        sem.push(Box::new(|a| (a & 1 == 1) & ((a >> 1) & 1 == 1)));
        wires.push(b.push_or(2, 3));
        sem.push(Box::new(|a| (a & 1 == 1) | ((a >> 1) & 1 == 1)));
    }
    wires.push(b.push_not(2));
    sem.push(Box::new(|a| a & 1 == 0));
    (wires, sem)
}

fn emit(b: &mut Builder, ops: &[POp], wires: &[usize]) {
    for o in ops {
        match o {
            POp::Panic { cond, reason, line } => {
                b.push_panic_if(wires[*cond], *reason, MetaInfo { start: (*line, 3 * *line + 1), end: (2 * *line + 1, 5 * *line + 2) });
            }
            POp::Branch { cond, t, f } => {
                let w = wires.to_vec();
                let w2 = wires.to_vec();
                b.branch(wires[*cond], &mut |b: &mut Builder| emit(b, t, &w), &mut |b: &mut Builder| emit(b, f, &w2));
            }
        }
    }
}

fn reference(ops: &[POp], sem: &[Box<dyn Fn(usize) -> bool>], a: usize, cur: &mut Option<(u8, usize)>) {
    for o in ops {
        match o {
            POp::Panic { cond, reason, line } => {
                if cur.is_none() && sem[*cond](a) {
                    *cur = Some((*reason, *line));
                }
            }
            POp::Branch { cond, t, f } => {
                if sem[*cond](a) {
                    reference(t, sem, a, cur)
                } else {
                    reference(f, sem, a, cur)
                }
            }
        }
    }
}

fn bits_to_usize(bits: &[bool]) -> usize {
    bits.iter().fold(0usize, |n, b| (n << 1) | (*b as usize))
}

pub fn run(k: usize, cache: bool, ops: &[POp]) -> Result<(), String> {
    let mut b = Builder::new(vec![k], cache);
    let (wires, sem) = cond_wires(&mut b, k);
    emit(&mut b, ops, &wires);
    let c = b.build(vec![0]);
    for a in 0..(1usize << k) {
        let inp: Vec<bool> = (0..k).map(|i| (a >> i) & 1 == 1).collect();
        let out = c.eval(&[inp]);
        let mut exp = None;
        reference(ops, &sem, a, &mut exp);
        let has = out[0];
        let reason = bits_to_usize(&out[1..33]);
        let start_line = bits_to_usize(&out[33..65]);
        let start_col = bits_to_usize(&out[65..97]);
        let end_line = bits_to_usize(&out[97..129]);
        let end_col = bits_to_usize(&out[129..161]);
        match exp {
            None => {
                if has {
                    return Err(format!(
                        "input {a:#b}: circuit reports a panic (reason {reason}, line {start_line}) but no executed operation fails"
                    ));
                }
            }
            Some((r, l)) => {
                if !has {
                    return Err(format!("input {a:#b}: operation at line {l} fails (reason {r}) but the circuit reports no panic"));
                }
                if reason != r as usize || start_line != l || end_line != 2 * l + 1 || start_col != 3 * l + 1 || end_col != 5 * l + 2 {
                    return Err(format!(
                        "input {a:#b}: first failing operation is reason {r} at line {l}, circuit reports reason {reason} at {start_line}:{start_col}-{end_line}:{end_col} (locations are encoded as line l -> l:3l+1 - 2l+1:5l+2)"
                    ));
                }
            }
        }
    }
    Ok(())
}

fn random_ops(rng: &mut Rng, n_conds: usize, depth: usize, line: &mut usize, budget: &mut usize) -> Vec<POp> {
    let mut ops = vec![];
    let n = 1 + rng.below(4);
    for _ in 0..n {
        if *budget == 0 {
            break;
        }
        *budget -= 1;
        if depth > 0 && rng.below(4) == 0 {
            let cond = 2 + rng.below(n_conds - 2);
            let t = random_ops(rng, n_conds, depth - 1, line, budget);
            let f = if rng.below(3) == 0 { vec![] } else { random_ops(rng, n_conds, depth - 1, line, budget) };
            ops.push(POp::Branch { cond, t, f });
        } else {
            *line += 1;
            // bias towards few distinct conditions so that the same condition recurs
            let cond = if rng.below(8) == 0 { rng.below(2) } else { 2 + rng.below((n_conds - 2).min(4)) };
            ops.push(POp::Panic { cond, reason: 1 + rng.below(3) as u8, line: *line });
        }
    }
    ops
}

/// all variants of `ops` with one operation removed or one branch replaced by one of its arms
fn smaller(ops: &[POp]) -> Vec<Vec<POp>> {
    let mut res = vec![];
    for i in 0..ops.len() {
        let mut v = ops.to_vec();
        v.remove(i);
        res.push(v);
        if let POp::Branch { cond, t, f } = &ops[i] {
            for sub in smaller(t) {
                let mut v = ops.to_vec();
                v[i] = POp::Branch { cond: *cond, t: sub, f: f.clone() };
                res.push(v);
            }
            for sub in smaller(f) {
                let mut v = ops.to_vec();
                v[i] = POp::Branch { cond: *cond, t: t.clone(), f: sub };
                res.push(v);
            }
        }
    }
    res
}

fn shrink(k: usize, cache: bool, mut ops: Vec<POp>, mut what: String) -> (Vec<POp>, String) {
    loop {
        let mut progressed = false;
        for cand in smaller(&ops) {
            if let Err(w) = run(k, cache, &cand) {
                ops = cand;
                what = w;
                progressed = true;
                break;
            }
        }
        if !progressed {
            return (ops, what);
        }
    }
}

fn report(k: usize, cache: bool, ops: &[POp], what: &str) -> String {
    format!(
        "kind: c02-panic-ops\ninputs: {k}\ncache_gates: {cache}\nops: {}\nobserved: {what}\nnote: `p c r l` = operation that fails with reason r (1 overflow, 2 div-by-zero, 3 out-of-bounds) at line l iff condition slot c is true; slots 0=false 1=true 2..=inputs, then xor/and/or of inputs 0,1 (if >= 2 inputs) and not(input 0)\n",
        fmt_ops(ops)
    )
}

pub fn search(args: &[String]) -> i32 {
    let random = arg_u64(args, "--random", 20000);
    let seed = arg_u64(args, "--seed", 1);
    let mut rng = Rng(seed ^ 0xC02);
    let mut count = 0u64;
    for _ in 0..random {
        let k = 1 + rng.below(3);
        let n_conds = 2 + k + if k >= 2 { 3 } else { 0 } + 1;
        let mut line = 0;
        let mut budget = 10;
        let ops = random_ops(&mut rng, n_conds, 2, &mut line, &mut budget);
        for cache in [true, false] {
            count += 1;
            if let Err(w) = run(k, cache, &ops) {
                let (ops, w) = shrink(k, cache, ops.clone(), w);
                write_out(args, &report(k, cache, &ops, &w));
                return 3;
            }
        }
    }
    let programs = arg_u64(args, "--programs", 300);
    if let Some(w) = search_src(args, seed, programs) {
        write_out(args, &format!("kind: c02-source\nseed: {seed}\nprograms: {programs}\nobserved: {w}\n"));
        return 3;
    }
    println!("c02 search: {count} random operation trees (sequences, nested branches, repeated conditions) through the builder and {programs} source programs x 30 inputs (failing operations in sequences, if conditions and branches, match arms, && / || operands, for and for-join loop bodies, called functions, array reads and element assignments) through the compiler, no disagreement");
    0
}

pub fn replay(text: &str) -> i32 {
    let k: usize = field(text, "inputs").and_then(|v| v.parse().ok()).unwrap_or(2);
    let cache = field(text, "cache_gates").map(|v| v == "true").unwrap_or(true);
    let src = field(text, "ops").unwrap_or_default();
    let toks: Vec<&str> = src.split_whitespace().collect();
    let mut pos = 0;
    let ops = parse_ops(&toks, &mut pos);
    match run(k, cache, &ops) {
        Ok(()) => {
            println!("replay: panic output agrees with the reference evaluation on all inputs");
            0
        }
        Err(w) => {
            println!("replay: REPRODUCED: {w}");
            3
        }
    }
}

// ------------------------------------------------------------------------------------------------
// Source-level part: small Garble programs whose potentially failing operations sit in sequences, if / else
// conditions and branches, match arms and short-circuit operands, compiled with the real compiler and compared
// with a reference interpreter (u8 checked arithmetic, first failure in evaluation order, untaken code silent).

#[derive(Clone, Debug)]
enum Atom {
    Var(usize), // index into the environment (0..3 = a, b, c; then v0, v1, ..)
    Lit(u8),
}

#[derive(Clone, Debug)]
struct Bin {
    op: &'static str,
    x: Atom,
    y: Atom,
}

#[derive(Clone, Debug)]
enum Cond {
    Cmp(Atom, &'static str, Atom),
    /// (x op y) cmp k  -- a failing operation inside the condition
    OpCmp(Bin, &'static str, u8),
}

#[derive(Clone, Debug)]
enum Stmt {
    Arith(Bin),
    Index(Atom, u8),               // [a, b, c, 7u8, ..][(x % (len + 2)) as usize] with len = 0..=5 elements ([7u8; 0] for the empty array)
    If(Cond, Bin, Bin),
    Match(Atom, Bin, Bin, Bin),    // match x % 3u8 { 0 => .., 1 => .., _ => .. }
    AndOr(bool, Cond, Cond, Bin, Bin), // if (c1 && c2) / (c1 || c2) { .. } else { .. }
    /// for ((_, p), (_, q)) in join_iter([(k, x)..], [(k, y)..]) { acc = acc ^ (p op q) }  -- keys strictly ascending literals
    Join(Vec<(u8, Atom)>, Vec<(u8, Atom)>, &'static str),
    /// for e in [x, y, z] { acc = acc ^ (e op w) }
    For(Vec<Atom>, &'static str, Atom),
    /// a call h(x, y) of a private function whose body is the failing operation
    Call(Bin),
    /// let mut arr = [a, b, c]; arr[(x % 4u8) as usize] = y;  -- index 3 is out of bounds
    ArrAssign(Atom, Atom),
    /// let mut m = [[a, b], [c, 7u8]]; m[(x % 3u8) as usize][((y op z) % 3u8) as usize] = w op2 v;  -- outer / inner index 2 is out of
    /// bounds, the inner index expression and the value can fail; evaluation order: outer index, its bounds check, inner index, its
    /// bounds check, value
    NestedAssign(Atom, Bin, Bin),
    /// let vK = [[a, b], [c, 7u8]][(x % 3u8) as usize][((y op z) % 3u8) as usize];  -- the array operand (outer access, index 2 is out of
    /// bounds) is evaluated before the index expression (which can fail), then the inner bounds check
    NestedRead(Atom, Bin),
}

fn atom_src(a: &Atom) -> String {
    match a {
        Atom::Var(0) => "a".into(),
        Atom::Var(1) => "b".into(),
        Atom::Var(2) => "c".into(),
        Atom::Var(i) => format!("v{}", i - 3),
        Atom::Lit(n) => format!("{n}u8"),
    }
}

fn bin_src(b: &Bin) -> String {
    format!("{} {} {}", atom_src(&b.x), b.op, atom_src(&b.y))
}

fn cond_src(c: &Cond) -> String {
    match c {
        Cond::Cmp(x, cmp, y) => format!("{} {} {}", atom_src(x), cmp, atom_src(y)),
        Cond::OpCmp(b, cmp, k) => format!("{} {} {}u8", bin_src(b), cmp, k),
    }
}

/// program text; every potentially failing operation is alone on its line, `lines` of a statement are recorded
/// relative to the statement's first line
fn op_name(op: &str) -> &'static str {
    match op { "+" => "add", "-" => "sub", "*" => "mul", "/" => "div", "%" => "rem", "<<" => "shl", _ => "shr" }
}

fn stmt_src(s: &Stmt, k: usize) -> Vec<String> {
    match s {
        Stmt::Join(xs, ys, op) => {
            let arr = |v: &Vec<(u8, Atom)>| format!("[{}]", v.iter().map(|(key, a)| format!("({key}u8, {})", atom_src(a))).collect::<Vec<_>>().join(", "));
            vec![
                format!("    let mut v{k} = 0u8;"),
                format!("    for ((_, p), (_, q)) in join_iter({}, {}) {{", arr(xs), arr(ys)),
                format!("        v{k} = v{k} ^ (p {op} q);"),
                "    }".to_string(),
            ]
        }
        Stmt::For(es, op, w) => vec![
            format!("    let mut v{k} = 0u8;"),
            format!("    for e in [{}] {{", es.iter().map(atom_src).collect::<Vec<_>>().join(", ")),
            format!("        v{k} = v{k} ^ (e {op} {});", atom_src(w)),
            "    }".to_string(),
        ],
        Stmt::Call(b) => vec![format!("    let v{k} = h_{}({}, {});", op_name(b.op), atom_src(&b.x), atom_src(&b.y))],
        Stmt::ArrAssign(x, y) => vec![
            format!("    let mut arr{k} = [a, b, c];"),
            format!("    arr{k}[({} % 4u8) as usize] = {};", atom_src(x), atom_src(y)),
            format!("    let v{k} = arr{k}[0] ^ arr{k}[1] ^ arr{k}[2];"),
        ],
        Stmt::NestedRead(x, j) => vec![format!("    let v{k} = [[a, b], [c, 7u8]][({} % 3u8) as usize][(({}) % 3u8) as usize];", atom_src(x), bin_src(j))],
        Stmt::NestedAssign(x, j, v) => vec![
            format!("    let mut m{k} = [[a, b], [c, 7u8]];"),
            format!("    m{k}[({} % 3u8) as usize][(({}) % 3u8) as usize] = {};", atom_src(x), bin_src(j), bin_src(v)),
            format!("    let v{k} = m{k}[0][0] ^ m{k}[0][1] ^ m{k}[1][0] ^ m{k}[1][1];"),
        ],
        Stmt::Arith(b) => vec![format!("    let v{k} = {};", bin_src(b))],
        Stmt::Index(x, len) => {
            let elems = ["a", "b", "c", "7u8", "a"];
            let arr = if *len == 0 { "[7u8; 0]".to_string() } else { format!("[{}]", elems[..*len as usize].join(", ")) };
            vec![format!("    let v{k} = {arr}[({} % {}u8) as usize];", atom_src(x), len + 2)]
        }
        Stmt::If(c, t, f) => vec![
            format!("    let v{k} = if {} {{", cond_src(c)),
            format!("        {}", bin_src(t)),
            "    } else {".to_string(),
            format!("        {}", bin_src(f)),
            "    };".to_string(),
        ],
        Stmt::Match(x, e0, e1, e2) => vec![
            format!("    let v{k} = match {} % 3u8 {{", atom_src(x)),
            format!("        0u8 => {},", bin_src(e0)),
            format!("        1u8 => {},", bin_src(e1)),
            format!("        _ => {},", bin_src(e2)),
            "    };".to_string(),
        ],
        Stmt::AndOr(and, c1, c2, t, f) => vec![
            format!("    let v{k} = if ({})", cond_src(c1)),
            format!("        {} ({}) {{", if *and { "&&" } else { "||" }, cond_src(c2)),
            format!("        {}", bin_src(t)),
            "    } else {".to_string(),
            format!("        {}", bin_src(f)),
            "    };".to_string(),
        ],
    }
}

fn atom_val(a: &Atom, env: &[u8]) -> u8 {
    match a {
        Atom::Var(i) => env[*i],
        Atom::Lit(n) => *n,
    }
}

/// Ok(value) or Err(reason code)
fn bin_val(b: &Bin, env: &[u8]) -> Result<u8, u8> {
    let (x, y) = (atom_val(&b.x, env), atom_val(&b.y, env));
    match b.op {
        "+" => x.checked_add(y).ok_or(1),
        "-" => x.checked_sub(y).ok_or(1),
        "*" => x.checked_mul(y).ok_or(1),
        "/" => if y == 0 { Err(2) } else { Ok(x / y) },
        "%" => if y == 0 { Err(2) } else { Ok(x % y) },
        "<<" => if y >= 8 { Err(1) } else { Ok(x << y) },
        ">>" => if y >= 8 { Err(1) } else { Ok(x >> y) },
        _ => unreachable!(),
    }
}

fn cmp(x: u8, c: &str, y: u8) -> bool {
    match c {
        "<" => x < y,
        ">" => x > y,
        "==" => x == y,
        _ => x != y,
    }
}

/// Err((reason, line offset inside the statement))
fn cond_val(c: &Cond, env: &[u8], line: usize) -> Result<bool, (u8, usize)> {
    match c {
        Cond::Cmp(x, op, y) => Ok(cmp(atom_val(x, env), op, atom_val(y, env))),
        Cond::OpCmp(b, op, k) => bin_val(b, env).map(|v| cmp(v, op, *k)).map_err(|r| (r, line)),
    }
}

/// line offset of the failing operation of a Call statement: negative = inside a helper (resolved by the caller)
const CALL_LINE: usize = usize::MAX;

fn stmt_val(s: &Stmt, env: &[u8]) -> Result<u8, (u8, usize)> {
    match s {
        Stmt::Join(xs, ys, op) => {
            // sorted-merge join: the body runs once per common key, in ascending key order
            let mut acc = 0u8;
            for (kx, x) in xs {
                for (ky, y) in ys {
                    if kx == ky {
                        let v = bin_val(&Bin { op, x: Atom::Lit(atom_val(x, env)), y: Atom::Lit(atom_val(y, env)) }, env).map_err(|r| (r, 2))?;
                        acc ^= v;
                    }
                }
            }
            Ok(acc)
        }
        Stmt::For(es, op, w) => {
            let mut acc = 0u8;
            for e in es {
                let v = bin_val(&Bin { op, x: Atom::Lit(atom_val(e, env)), y: Atom::Lit(atom_val(w, env)) }, env).map_err(|r| (r, 2))?;
                acc ^= v;
            }
            Ok(acc)
        }
        Stmt::Call(b) => bin_val(b, env).map_err(|r| (r, CALL_LINE)),
        Stmt::ArrAssign(x, y) => {
            let i = atom_val(x, env) % 4;
            if i >= 3 { return Err((3, 1)); }
            let mut arr = [env[0], env[1], env[2]];
            arr[i as usize] = atom_val(y, env);
            Ok(arr[0] ^ arr[1] ^ arr[2])
        }
        Stmt::NestedRead(x, j) => {
            let i = atom_val(x, env) % 3;
            if i >= 2 { return Err((3, 0)); }
            let jv = bin_val(j, env).map_err(|r| (r, 0))? % 3;
            if jv >= 2 { return Err((3, 0)); }
            let m = [[env[0], env[1]], [env[2], 7]];
            Ok(m[i as usize][jv as usize])
        }
        Stmt::NestedAssign(x, j, v) => {
            let i = atom_val(x, env) % 3;
            if i >= 2 { return Err((3, 1)); }
            let jv = bin_val(j, env).map_err(|r| (r, 1))? % 3;
            if jv >= 2 { return Err((3, 1)); }
            let val = bin_val(v, env).map_err(|r| (r, 1))?;
            let mut m = [[env[0], env[1]], [env[2], 7]];
            m[i as usize][jv as usize] = val;
            Ok(m[0][0] ^ m[0][1] ^ m[1][0] ^ m[1][1])
        }
        Stmt::Arith(b) => bin_val(b, env).map_err(|r| (r, 0)),
        Stmt::Index(x, len) => {
            let i = atom_val(x, env) % (len + 2);
            if i >= *len { Err((3, 0)) } else { Ok([env[0], env[1], env[2], 7, env[0]][i as usize]) }
        }
        Stmt::If(c, t, f) => {
            if cond_val(c, env, 0)? { bin_val(t, env).map_err(|r| (r, 1)) } else { bin_val(f, env).map_err(|r| (r, 3)) }
        }
        Stmt::Match(x, e0, e1, e2) => match atom_val(x, env) % 3 {
            0 => bin_val(e0, env).map_err(|r| (r, 1)),
            1 => bin_val(e1, env).map_err(|r| (r, 2)),
            _ => bin_val(e2, env).map_err(|r| (r, 3)),
        },
        Stmt::AndOr(and, c1, c2, t, f) => {
            let l = cond_val(c1, env, 0)?;
            let taken = if *and { l && cond_val(c2, env, 1)? } else { l || cond_val(c2, env, 1)? };
            if taken { bin_val(t, env).map_err(|r| (r, 2)) } else { bin_val(f, env).map_err(|r| (r, 4)) }
        }
    }
}

fn rand_atom(rng: &mut Rng, nvars: usize) -> Atom {
    if rng.below(5) == 0 { Atom::Lit([0u8, 1, 2, 3, 8, 100, 200, 255][rng.below(8)]) } else { Atom::Var(rng.below(nvars)) }
}

fn rand_bin(rng: &mut Rng, nvars: usize) -> Bin {
    Bin { op: ["+", "-", "*", "/", "%", "<<", ">>", "+", "/"][rng.below(9)], x: rand_atom(rng, nvars), y: rand_atom(rng, nvars) }
}

fn rand_cond(rng: &mut Rng, nvars: usize) -> Cond {
    let c = ["<", ">", "==", "!="][rng.below(4)];
    if rng.below(2) == 0 { Cond::Cmp(rand_atom(rng, nvars), c, rand_atom(rng, nvars)) } else { Cond::OpCmp(rand_bin(rng, nvars), c, [0u8, 1, 44, 100, 200][rng.below(5)]) }
}

fn rand_keys(rng: &mut Rng, n: usize) -> Vec<u8> {
    let mut ks: Vec<u8> = vec![];
    let mut k = rng.below(3) as u8;
    for _ in 0..n {
        ks.push(k);
        k += 1 + rng.below(2) as u8;
    }
    ks
}

fn rand_join(rng: &mut Rng, nvars: usize) -> Stmt {
    let ops = ["+", "-", "*", "/", "%", "<<", ">>", "+", "/"];
    let (n, m) = (1 + rng.below(3), 1 + rng.below(3));
    let xs = rand_keys(rng, n).into_iter().map(|k| (k, rand_atom(rng, nvars))).collect();
    let ys = rand_keys(rng, m).into_iter().map(|k| (k, rand_atom(rng, nvars))).collect();
    Stmt::Join(xs, ys, ops[rng.below(9)])
}

fn rand_stmt(rng: &mut Rng, nvars: usize) -> Stmt {
    let ops = ["+", "-", "*", "/", "%", "<<", ">>", "+", "/"];
    match rng.below(15) {
        14 => Stmt::NestedRead(rand_atom(rng, nvars), rand_bin(rng, nvars)),
        13 => Stmt::NestedAssign(rand_atom(rng, nvars), rand_bin(rng, nvars), rand_bin(rng, nvars)),
        9 => rand_join(rng, nvars),
        10 => Stmt::For((0..1 + rng.below(3)).map(|_| rand_atom(rng, nvars)).collect(), ops[rng.below(9)], rand_atom(rng, nvars)),
        11 => Stmt::Call(rand_bin(rng, nvars)),
        12 => Stmt::ArrAssign(rand_atom(rng, nvars), rand_atom(rng, nvars)),
        _ => rand_stmt_basic(rng, nvars),
    }
}

fn rand_stmt_basic(rng: &mut Rng, nvars: usize) -> Stmt {
    match rng.below(9) {
        0..=2 => Stmt::Arith(rand_bin(rng, nvars)),
        3 => Stmt::Index(rand_atom(rng, nvars), [4u8, 0, 1, 4, 2, 5, 3, 0][rng.below(8)]),
        4 | 5 => Stmt::If(rand_cond(rng, nvars), rand_bin(rng, nvars), rand_bin(rng, nvars)),
        6 => Stmt::Match(rand_atom(rng, nvars), rand_bin(rng, nvars), rand_bin(rng, nvars), rand_bin(rng, nvars)),
        _ => Stmt::AndOr(rng.below(2) == 0, rand_cond(rng, nvars), rand_cond(rng, nvars), rand_bin(rng, nvars), rand_bin(rng, nvars)),
    }
}

/// line (0-based) of the operation inside the helper function of `op`, if the program has one
fn helper_line(stmts: &[Stmt], op: &str) -> Option<usize> {
    let mut used: Vec<&'static str> = vec![];
    for s in stmts {
        if let Stmt::Call(b) = s {
            if !used.contains(&b.op) { used.push(b.op); }
        }
    }
    used.iter().position(|o| *o == op).map(|i| 3 * i + 1)
}

fn program_src(stmts: &[Stmt]) -> (String, Vec<usize>) {
    let mut lines: Vec<String> = vec![];
    let mut used: Vec<&'static str> = vec![];
    for s in stmts {
        if let Stmt::Call(b) = s {
            if !used.contains(&b.op) { used.push(b.op); }
        }
    }
    for op in &used {
        lines.push(format!("fn h_{}(p: u8, q: u8) -> u8 {{", op_name(op)));
        lines.push(format!("    p {op} q"));
        lines.push("}".to_string());
    }
    lines.push("pub fn main(a: u8, b: u8, c: u8) -> u8 {".to_string());
    let mut first_line = vec![];
    for (k, s) in stmts.iter().enumerate() {
        first_line.push(lines.len());
        lines.extend(stmt_src(s, k));
    }
    let mut res = "    a ^ b ^ c".to_string();
    for k in 0..stmts.len() {
        res.push_str(&format!(" ^ v{k}"));
    }
    lines.push(res);
    lines.push("}".to_string());
    (lines.join("\n"), first_line)
}

fn u8_bits(v: u8) -> Vec<bool> {
    (0..8).map(|i| (v >> (7 - i)) & 1 == 1).collect()
}

pub fn check_src(stmts: &[Stmt], inputs: &[(u8, u8, u8)]) -> Result<(), String> {
    let (src, first_line) = program_src(stmts);
    let prg = match garble_lang::compile(&src) {
        Ok(p) => p,
        Err(_) => return Ok(()), // e.g. a statically rejected program; not this property
    };
    for &(a, b, c) in inputs {
        let mut env = vec![a, b, c];
        let mut expected: Option<(u8, usize)> = None;
        let mut acc = a ^ b ^ c;
        for (k, s) in stmts.iter().enumerate() {
            match stmt_val(s, &env) {
                Ok(v) => {
                    env.push(v);
                    acc ^= v;
                }
                Err((r, off)) => {
                    let line = if off == CALL_LINE {
                        match s { Stmt::Call(b) => helper_line(stmts, b.op).unwrap(), _ => unreachable!() }
                    } else { first_line[k] + off };
                    expected = Some((r, line));
                    break;
                }
            }
        }
        let out = prg.circuit.eval(&[u8_bits(a), u8_bits(b), u8_bits(c)]);
        let has = out[0];
        let reason = bits_to_usize(&out[1..33]);
        let start_line = bits_to_usize(&out[33..65]);
        match expected {
            None => {
                if has {
                    return Err(format!("inputs ({a}, {b}, {c}): no operation fails, the circuit reports a panic (reason {reason}, line {start_line})\n{src}"));
                }
                let got = bits_to_usize(&out[161..]) as u8;
                if got != acc {
                    return Err(format!("inputs ({a}, {b}, {c}): result {got}, expected {acc}\n{src}"));
                }
            }
            Some((r, line)) => {
                if !has {
                    return Err(format!("inputs ({a}, {b}, {c}): the operation on line {line} fails (reason {r}) but no panic is reported\n{src}"));
                }
                if reason != r as usize || start_line != line {
                    return Err(format!("inputs ({a}, {b}, {c}): the first failing operation is on line {line} (reason {r}); the circuit reports reason {reason} on line {start_line}\n{src}"));
                }
                // the reported span is that of the failing operation itself (checked for the plain `let vK = x op y;` statements, where the span is
                // known from the text: columns count from 0, the end is exclusive)
                if let Some(k) = (0..stmts.len()).find(|k| first_line[*k] == line) {
                    if let Stmt::Arith(bin) = &stmts[k] {
                        let text = src.lines().nth(line).unwrap_or("");
                        let expr = bin_src(bin);
                        if let Some(col) = text.find(&expr) {
                            let (sc, el, ec) = (bits_to_usize(&out[65..97]), bits_to_usize(&out[97..129]), bits_to_usize(&out[129..161]));
                            if (sc, el, ec) != (col, line, col + expr.len()) {
                                return Err(format!("inputs ({a}, {b}, {c}): the failing operation `{expr}` is at {line}:{col}-{line}:{}; the circuit reports {start_line}:{sc}-{el}:{ec}\n{src}", col + expr.len()));
                            }
                        }
                    }
                }
            }
        }
    }
    Ok(())
}

pub fn search_src(args: &[String], seed: u64, programs: u64) -> Option<String> {
    // --join-only: every program starts with a for-join loop whose body can fail (used by the C13 check: the loop's panics
    // are applied only for the joined pairs)
    let join_only = args.iter().any(|a| a == "--join-only");
    let mut rng = Rng(seed ^ 0xC025);
    let vals = [0u8, 1, 2, 3, 4, 5, 7, 8, 9, 44, 100, 128, 200, 254, 255];
    for _ in 0..programs {
        let n = 1 + rng.below(4);
        let mut stmts: Vec<Stmt> = (0..n).map(|k| rand_stmt(&mut rng, 3 + k)).collect();
        if join_only { stmts[0] = rand_join(&mut rng, 3); }
        let mut inputs = vec![];
        for _ in 0..30 {
            let mut pick = |rng: &mut Rng| if rng.below(4) == 0 { rng.next() as u8 } else { vals[rng.below(vals.len())] };
            inputs.push((pick(&mut rng), pick(&mut rng), pick(&mut rng)));
        }
        if let Err(w) = check_src(&stmts, &inputs) {
            return Some(w);
        }
    }
    None
}
