pub fn search(_args: &[String]) -> i32 { 0 }
pub fn replay(_text: &str) -> i32 { 0 }
