//! C02: differential check of the real panic-record machinery (push_panic_if, mux_panic,
//! replace_panic_with, build, EvalPanic layout) against a reference evaluation of the same operation tree.

use crate::util::{arg_u64, field, write_out, Rng};
use garble_lang::token::MetaInfo;
use garble_lang::verif_hooks::Builder;

#[derive(Clone, Debug)]
pub enum POp {
    /// potentially failing operation: panics with `reason` at line `line` iff wire `cond` is true
    Panic { cond: usize, reason: u8, line: usize },
    /// if/else on wire `cond`
    Branch { cond: usize, t: Vec<POp>, f: Vec<POp> },
}

fn fmt_ops(ops: &[POp]) -> String {
    ops.iter()
        .map(|o| match o {
            POp::Panic { cond, reason, line } => format!("p {cond} {reason} {line}"),
            POp::Branch { cond, t, f } => format!("if {cond} {{ {} }} else {{ {} }}", fmt_ops(t), fmt_ops(f)),
        })
        .collect::<Vec<_>>()
        .join(" ; ")
}

fn parse_ops(toks: &[&str], pos: &mut usize) -> Vec<POp> {
    let mut ops = vec![];
    while *pos < toks.len() {
        match toks[*pos] {
            "p" => {
                let cond = toks[*pos + 1].parse().unwrap_or(0);
                let reason = toks[*pos + 2].parse().unwrap_or(1);
                let line = toks[*pos + 3].parse().unwrap_or(0);
                ops.push(POp::Panic { cond, reason, line });
                *pos += 4;
            }
            "if" => {
                let cond = toks[*pos + 1].parse().unwrap_or(0);
                *pos += 3; // if c {
                let t = parse_ops(toks, pos);
                *pos += 3; // } else {
                let f = parse_ops(toks, pos);
                *pos += 1; // }
                ops.push(POp::Branch { cond, t, f });
            }
            ";" => *pos += 1,
            _ => break, // `}`
        }
    }
    ops
}

/// condition slots: 0 = false, 1 = true, 2..2+k inputs, then xor / and / or / not of the first inputs
fn cond_wires(b: &mut Builder, k: usize) -> (Vec<usize>, Vec<Box<dyn Fn(usize) -> bool>>) {
    let mut wires: Vec<usize> = vec![0, 1];
    let mut sem: Vec<Box<dyn Fn(usize) -> bool>> = vec![Box::new(|_| false), Box::new(|_| true)];
    for i in 0..k {
        wires.push(2 + i);
        sem.push(Box::new(move |a| (a >> i) & 1 == 1));
    }
    if k >= 2 {
        wires.push(b.push_xor(2, 3));
        sem.push(Box::new(|a| (a & 1 == 1) ^ ((a >> 1) & 1 == 1)));
        wires.push(b.push_and(2, 3));
        sem.push(Box::new(|a| (a & 1 == 1) & ((a >> 1) & 1 == 1)));
        wires.push(b.push_or(2, 3));
        sem.push(Box::new(|a| (a & 1 == 1) | ((a >> 1) & 1 == 1)));
    }
    wires.push(b.push_not(2));
    sem.push(Box::new(|a| a & 1 == 0));
    (wires, sem)
}

fn emit(b: &mut Builder, ops: &[POp], wires: &[usize]) {
    for o in ops {
        match o {
            POp::Panic { cond, reason, line } => {
                b.push_panic_if(wires[*cond], *reason, MetaInfo { start: (*line, 3 * *line + 1), end: (2 * *line + 1, 5 * *line + 2) });
            }
            POp::Branch { cond, t, f } => {
                let w = wires.to_vec();
                let w2 = wires.to_vec();
                b.branch(wires[*cond], &mut |b: &mut Builder| emit(b, t, &w), &mut |b: &mut Builder| emit(b, f, &w2));
            }
        }
    }
}

fn reference(ops: &[POp], sem: &[Box<dyn Fn(usize) -> bool>], a: usize, cur: &mut Option<(u8, usize)>) {
    for o in ops {
        match o {
            POp::Panic { cond, reason, line } => {
                if cur.is_none() && sem[*cond](a) {
                    *cur = Some((*reason, *line));
                }
            }
            POp::Branch { cond, t, f } => {
                if sem[*cond](a) {
                    reference(t, sem, a, cur)
                } else {
                    reference(f, sem, a, cur)
                }
            }
        }
    }
}

fn bits_to_usize(bits: &[bool]) -> usize {
    bits.iter().fold(0usize, |n, b| (n << 1) | (*b as usize))
}

pub fn run(k: usize, cache: bool, ops: &[POp]) -> Result<(), String> {
    let mut b = Builder::new(vec![k], cache);
    let (wires, sem) = cond_wires(&mut b, k);
    emit(&mut b, ops, &wires);
    let c = b.build(vec![0]);
    for a in 0..(1usize << k) {
        let inp: Vec<bool> = (0..k).map(|i| (a >> i) & 1 == 1).collect();
        let out = c.eval(&[inp]);
        let mut exp = None;
        reference(ops, &sem, a, &mut exp);
        let has = out[0];
        let reason = bits_to_usize(&out[1..33]);
        let start_line = bits_to_usize(&out[33..65]);
        let start_col = bits_to_usize(&out[65..97]);
        let end_line = bits_to_usize(&out[97..129]);
        let end_col = bits_to_usize(&out[129..161]);
        match exp {
            None => {
                if has {
                    return Err(format!(
                        "input {a:#b}: circuit reports a panic (reason {reason}, line {start_line}) but no executed operation fails"
                    ));
                }
            }
            Some((r, l)) => {
                if !has {
                    return Err(format!("input {a:#b}: operation at line {l} fails (reason {r}) but the circuit reports no panic"));
                }
                if reason != r as usize || start_line != l || end_line != 2 * l + 1 || start_col != 3 * l + 1 || end_col != 5 * l + 2 {
                    return Err(format!(
                        "input {a:#b}: first failing operation is reason {r} at line {l}, circuit reports reason {reason} at {start_line}:{start_col}-{end_line}:{end_col} (locations are encoded as line l -> l:3l+1 - 2l+1:5l+2)"
                    ));
                }
            }
        }
    }
    Ok(())
}

fn random_ops(rng: &mut Rng, n_conds: usize, depth: usize, line: &mut usize, budget: &mut usize) -> Vec<POp> {
    let mut ops = vec![];
    let n = 1 + rng.below(4);
    for _ in 0..n {
        if *budget == 0 {
            break;
        }
        *budget -= 1;
        if depth > 0 && rng.below(4) == 0 {
            let cond = 2 + rng.below(n_conds - 2);
            let t = random_ops(rng, n_conds, depth - 1, line, budget);
            let f = if rng.below(3) == 0 { vec![] } else { random_ops(rng, n_conds, depth - 1, line, budget) };
            ops.push(POp::Branch { cond, t, f });
        } else {
            *line += 1;
            // bias towards few distinct conditions so that the same condition recurs
            let cond = if rng.below(8) == 0 { rng.below(2) } else { 2 + rng.below((n_conds - 2).min(4)) };
            ops.push(POp::Panic { cond, reason: 1 + rng.below(3) as u8, line: *line });
        }
    }
    ops
}

/// all variants of `ops` with one operation removed or one branch replaced by one of its arms
fn smaller(ops: &[POp]) -> Vec<Vec<POp>> {
    let mut res = vec![];
    for i in 0..ops.len() {
        let mut v = ops.to_vec();
        v.remove(i);
        res.push(v);
        if let POp::Branch { cond, t, f } = &ops[i] {
            for sub in smaller(t) {
                let mut v = ops.to_vec();
                v[i] = POp::Branch { cond: *cond, t: sub, f: f.clone() };
                res.push(v);
            }
            for sub in smaller(f) {
                let mut v = ops.to_vec();
                v[i] = POp::Branch { cond: *cond, t: t.clone(), f: sub };
                res.push(v);
            }
        }
    }
    res
}

fn shrink(k: usize, cache: bool, mut ops: Vec<POp>, mut what: String) -> (Vec<POp>, String) {
    loop {
        let mut progressed = false;
        for cand in smaller(&ops) {
            if let Err(w) = run(k, cache, &cand) {
                ops = cand;
                what = w;
                progressed = true;
                break;
            }
        }
        if !progressed {
            return (ops, what);
        }
    }
}

fn report(k: usize, cache: bool, ops: &[POp], what: &str) -> String {
    format!(
        "kind: c02-panic-ops\ninputs: {k}\ncache_gates: {cache}\nops: {}\nobserved: {what}\nnote: `p c r l` = operation that fails with reason r (1 overflow, 2 div-by-zero, 3 out-of-bounds) at line l iff condition slot c is true; slots 0=false 1=true 2..=inputs, then xor/and/or of inputs 0,1 (if >= 2 inputs) and not(input 0)\n",
        fmt_ops(ops)
    )
}

pub fn search(args: &[String]) -> i32 {
    let random = arg_u64(args, "--random", 20000);
    let seed = arg_u64(args, "--seed", 1);
    let mut rng = Rng(seed ^ 0xC02);
    let mut count = 0u64;
    for _ in 0..random {
        let k = 1 + rng.below(3);
        let n_conds = 2 + k + if k >= 2 { 3 } else { 0 } + 1;
        let mut line = 0;
        let mut budget = 10;
        let ops = random_ops(&mut rng, n_conds, 2, &mut line, &mut budget);
        for cache in [true, false] {
            count += 1;
            if let Err(w) = run(k, cache, &ops) {
                let (ops, w) = shrink(k, cache, ops.clone(), w);
                write_out(args, &report(k, cache, &ops, &w));
                return 3;
            }
        }
    }
    println!("c02 search: {count} random operation trees (sequences, nested branches, repeated conditions), no disagreement");
    0
}

pub fn replay(text: &str) -> i32 {
    let k: usize = field(text, "inputs").and_then(|v| v.parse().ok()).unwrap_or(2);
    let cache = field(text, "cache_gates").map(|v| v == "true").unwrap_or(true);
    let src = field(text, "ops").unwrap_or_default();
    let toks: Vec<&str> = src.split_whitespace().collect();
    let mut pos = 0;
    let ops = parse_ops(&toks, &mut pos);
    match run(k, cache, &ops) {
        Ok(()) => {
            println!("replay: panic output agrees with the reference evaluation on all inputs");
            0
        }
        Err(w) => {
            println!("replay: REPRODUCED: {w}");
            3
        }
    }
}
