//! Witness search and replay against the *real* crate (path dependency on /repo, feature verif_hooks).
//!
//! A deductive verifier (Verus) gives no counterexample.  When one of its obligations fails, the check
//! runs the matching `search` here to look for a concrete failing input on the real code; a hit is
//! written to a replay file that `replay <file>` re-executes.  Exit codes: 0 = nothing found /
//! replay does not fail, 3 = witness found / replay reproduces the failure, 2 = usage or I/O error.

mod c02;
mod c03;
mod c04;
mod c08;
mod c09;
mod c10;
mod c11;
mod c12;
mod c13;
mod c14;
mod c16;
mod c17;
mod util;

use std::process::exit;

fn main() {
    let args: Vec<String> = std::env::args().collect();
    if args.len() < 3 {
        eprintln!("usage: replay <search|replay> <what> [args..]");
        exit(2);
    }
    let code = match (args[1].as_str(), args[2].as_str()) {
        ("search", "c04") => c04::search(&args[3..]),
        ("search", "c02") => c02::search(&args[3..]),
        ("search", "c03") => c03::search(&args[3..]),
        ("search", "c16") => c16::search(&args[3..]),
        ("search", "c09") => c09::search(&args[3..]),
        ("search", "c08") => c08::search(&args[3..]),
        ("search", "c10") => c10::search(&args[3..]),
        ("search", "c11") => c11::search(&args[3..]),
        ("search", "c12") => c12::search(&args[3..]),
        ("search", "c13") => c13::search(&args[3..]),
        ("search", "c14") => c14::search(&args[3..]),
        ("search", "c17") => c17::search(&args[3..]),
        ("run", path) => {
            // manual triage helper: replay run <source file> [literal args..]  (compile, evaluate, print the result literal)
            let src = std::fs::read_to_string(path).unwrap_or_else(|e| { eprintln!("cannot read {path}: {e}"); exit(2) });
            match garble_lang::compile(&src) {
                Err(e) => { println!("rejected: {e:?}"); 0 }
                Ok(prg) => {
                    if args.len() > 3 {
                        let r = std::panic::catch_unwind(|| {
                            let mut ev = prg.evaluator();
                            for a in &args[3..] { ev.parse_literal(a).unwrap(); }
                            let out = ev.run().map_err(|e| format!("{e:?}")).and_then(|o| o.into_literal().map(|l| format!("{l}")).map_err(|e| format!("{e:?}")));
                            println!("result: {out:?}");
                        });
                        if r.is_err() { println!("PANICKED"); }
                    } else { println!("accepted"); }
                    0
                }
            }
        }
        ("replay", path) => {
            let text = match std::fs::read_to_string(path) {
                Ok(t) => t,
                Err(e) => {
                    eprintln!("cannot read {path}: {e}");
                    exit(2)
                }
            };
            let kind = util::field(&text, "kind").unwrap_or_default();
            match kind.as_str() {
                "c04-requests" => c04::replay(&text),
                "c02-panic-ops" => c02::replay(&text),
                "c02-source" => {
                    let seed = util::field(&text, "seed").unwrap_or_else(|| "1".into());
                    let programs = util::field(&text, "programs").unwrap_or_else(|| "300".into());
                    c02::search(&["--random".to_string(), "0".to_string(), "--seed".to_string(), seed, "--programs".to_string(), programs])
                }
                "c03-op" => c03::replay(&text),
                "kani-values" => c16::replay(&text),
                "c09-literal" => c09::replay(&text),
                "c08-match" => c08::replay(&text),
                "c11-roundtrip" | "c11-malformed" | "c11-program" => c11::replay(&text),
                "c12-consts" => c12::replay(&text),
                "c13-join" => c13::replay(&text),
                "c14-program" => c14::replay(&text),
                "c17-illtyped" => c17::replay(&text),
                "c16-circuit" | "c10-conversion" => {
                    println!("{text}");
                    3
                }
                "none" => {
                    println!("replay file carries no concrete input (no-failing-input-found); verifier output:");
                    println!("{text}");
                    0
                }
                k => {
                    eprintln!("unknown replay kind {k:?}");
                    2
                }
            }
        }
        _ => {
            eprintln!("unknown command");
            2
        }
    };
    exit(code);
}
