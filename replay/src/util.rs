//! Small helpers: `key: value` replay files, argument parsing, a deterministic PRNG.

pub fn field(text: &str, key: &str) -> Option<String> {
    for l in text.lines() {
        if let Some(rest) = l.strip_prefix(key) {
            if let Some(v) = rest.strip_prefix(':') {
                return Some(v.trim().to_string());
            }
        }
    }
    None
}

pub fn arg(args: &[String], name: &str) -> Option<String> {
    let mut it = args.iter();
    while let Some(a) = it.next() {
        if a == name {
            return it.next().cloned();
        }
    }
    None
}

pub fn arg_u64(args: &[String], name: &str, default: u64) -> u64 {
    arg(args, name).and_then(|v| v.parse().ok()).unwrap_or(default)
}

pub fn write_out(args: &[String], content: &str) {
    if let Some(p) = arg(args, "--out") {
        if let Err(e) = std::fs::write(&p, content) {
            eprintln!("cannot write {p}: {e}");
        }
    }
    println!("{content}");
}

/// splitmix64
pub struct Rng(pub u64);

impl Rng {
    pub fn next(&mut self) -> u64 {
        self.0 = self.0.wrapping_add(0x9E3779B97F4A7C15);
        let mut z = self.0;
        z = (z ^ (z >> 30)).wrapping_mul(0xBF58476D1CE4E5B9);
        z = (z ^ (z >> 27)).wrapping_mul(0x94D049BB133111EB);
        z ^ (z >> 31)
    }
    pub fn below(&mut self, n: usize) -> usize {
        (self.next() % (n as u64)) as usize
    }
}
