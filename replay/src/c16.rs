//! C16 / C10: re-executes a Kani counterexample (the recorded `kani::any()` values, in draw order) on the real
//! validate / eval / conversion code, through the same decoder the harness used.

#[path = "../../kani/src/decode.rs"]
#[allow(dead_code)]
mod decode;

use crate::util::field;
use decode::*;
use std::panic::{catch_unwind, AssertUnwindSafe};

fn recorded(text: &str) -> Recorded {
    let vals = field(text, "values")
        .unwrap_or_default()
        .split(',')
        .filter_map(|v| v.trim().parse::<u64>().ok())
        .collect();
    Recorded { vals, pos: 0 }
}

pub fn replay(text: &str) -> i32 {
    let harness = field(text, "harness").unwrap_or_default();
    let max: usize = field(text, "max_items").and_then(|v| v.parse().ok()).unwrap_or(3);
    let mut src = recorded(text);
    std::panic::set_hook(Box::new(|_| {}));
    if harness.contains("ssa") {
        let c = decode_ssa(&mut src, max);
        println!("circuit: {c:?}");
        let ok = catch_unwind(AssertUnwindSafe(|| c.validate()));
        match ok {
            Err(_) => {
                println!("replay: validate() itself panicked");
                return 3;
            }
            Ok(Err(e)) => {
                println!("replay: validate() rejects the circuit ({e:?}); nothing to reproduce");
                return 0;
            }
            Ok(Ok(())) => {}
        }
        let inputs = decode_inputs(&mut src, &c.input_gates);
        println!("inputs: {inputs:?}");
        let expected = ref_eval_ssa(&c, &inputs);
        match catch_unwind(AssertUnwindSafe(|| c.eval(&inputs))) {
            Err(_) => {
                println!("replay: REPRODUCED: validate() accepts the circuit but eval() panics");
                3
            }
            Ok(out) => verdict(out, expected, c.output_gates.len()),
        }
    } else {
        let c = decode_reg(&mut src, max);
        println!("circuit: {c:?}");
        let ok = catch_unwind(AssertUnwindSafe(|| c.validate()));
        match ok {
            Err(_) => {
                println!("replay: validate() itself panicked");
                return 3;
            }
            Ok(Err(e)) => {
                println!("replay: validate() rejects the circuit ({e:?}); nothing to reproduce");
                return 0;
            }
            Ok(Ok(())) => {}
        }
        if let Err(why) = valid_spec_reg(&c) {
            println!("replay: REPRODUCED: validate() accepts a circuit that is not well-defined: {why}");
            return 3;
        }
        let inputs = decode_inputs(&mut src, &c.input_regs);
        println!("inputs: {inputs:?}");
        let expected = ref_eval_reg(&c, &inputs);
        match catch_unwind(AssertUnwindSafe(|| c.eval(&inputs))) {
            Err(_) => {
                println!("replay: REPRODUCED: validate() accepts the circuit but eval() panics");
                3
            }
            Ok(out) => verdict(out, expected, c.output_regs.len()),
        }
    }
}

fn verdict(out: Vec<bool>, expected: Result<Vec<bool>, &'static str>, n_out: usize) -> i32 {
    if out.len() != n_out {
        println!("replay: REPRODUCED: eval() returned {} bits for {n_out} declared outputs", out.len());
        return 3;
    }
    match expected {
        Err(why) => {
            println!("replay: REPRODUCED: validate() accepts a circuit that is not well-defined: {why}");
            3
        }
        Ok(e) if e != out => {
            println!("replay: REPRODUCED: eval() returned {out:?}, reference interpreter {e:?}");
            3
        }
        Ok(_) => {
            println!("replay: eval() is safe and agrees with the reference interpreter");
            0
        }
    }
}

// ------------------------------------------------------------------------------------------------
// Bounded explicit enumeration (stand-in where CBMC runs out of memory: the SSA validator / evaluator
// go through `impl Iterator` chains).  Every circuit of the stated shape is built concretely; if the real
// validate() accepts it, the real eval() must not panic on inputs of the declared shape, must return one
// bit per output and must agree with the reference interpreter, which refuses undefined reads.

use crate::util::{arg_u64, write_out, Rng};
use garble_lang::circuit::{Circuit as SsaCircuit, Gate};
use garble_lang::register_circuit::{And, Circuit as RegCircuit, Input, Inst, Not, Op, Reg, Xor};

/// compiled programs (source, every parameter has zero bits)
const COMPILED: [(&str, bool); 8] = [
    ("pub fn main(x: u8, y: bool) -> u8 { if y { x } else { x + 1u8 } }", false),
    ("pub fn main(x: [u8; 0], y: bool) -> bool { y }", false),
    ("pub fn main(x: bool, y: [u8; 0]) -> [u8; 0] { y }", false),
    ("pub fn main(a: [(u8, bool); 2]) -> u8 { a[0].0 & a[1].0 }", false),
    ("pub fn main(x: [bool; 0]) -> bool { true }", true),
    ("pub fn main(x: [u8; 0]) -> [u8; 0] { x }", true),
    ("struct S {}\npub fn main(x: S) -> bool { true }", true),
    ("pub fn main(x: ()) -> bool { true }", true),
];

fn all_inputs(shape: &[usize]) -> Vec<Vec<Vec<bool>>> {
    let total: usize = shape.iter().sum();
    let mut res = vec![];
    for a in 0..(1usize << total) {
        let mut k = 0;
        let mut v = vec![];
        for &bits in shape {
            let mut p = vec![];
            for _ in 0..bits {
                p.push((a >> k) & 1 == 1);
                k += 1;
            }
            v.push(p);
        }
        res.push(v);
    }
    res
}

fn check_ssa(c: &SsaCircuit) -> Result<bool, String> {
    let v = catch_unwind(AssertUnwindSafe(|| c.validate()));
    match v {
        Err(_) => return Ok(false), // validate() panicking by itself is outside the statement of C16
        Ok(Err(_)) => return Ok(false),
        Ok(Ok(())) => {}
    }
    for inputs in all_inputs(&c.input_gates) {
        let expected = ref_eval_ssa(c, &inputs);
        match catch_unwind(AssertUnwindSafe(|| c.eval(&inputs))) {
            Err(_) => return Err(format!("validate() accepts {c:?} but eval({inputs:?}) panics")),
            Ok(out) => {
                if out.len() != c.output_gates.len() {
                    return Err(format!("eval of {c:?} returns {} bits for {} outputs", out.len(), c.output_gates.len()));
                }
                match expected {
                    Err(why) => return Err(format!("validate() accepts {c:?}: {why}")),
                    Ok(e) if e != out => return Err(format!("eval of {c:?} on {inputs:?} gives {out:?}, reference {e:?}")),
                    _ => {}
                }
            }
        }
    }
    Ok(true)
}

fn check_reg(c: &RegCircuit) -> Result<bool, String> {
    let v = catch_unwind(AssertUnwindSafe(|| c.validate()));
    match v {
        Err(_) => return Ok(false),
        Ok(Err(_)) => return Ok(false),
        Ok(Ok(())) => {}
    }
    if c.max_reg_count <= 8 {
        if let Err(why) = valid_spec_reg(c) {
            return Err(format!("validate() accepts {c:?}: {why}"));
        }
    }
    for inputs in all_inputs(&c.input_regs) {
        let expected = ref_eval_reg(c, &inputs);
        match catch_unwind(AssertUnwindSafe(|| c.eval(&inputs))) {
            Err(_) => return Err(format!("validate() accepts {c:?} but eval({inputs:?}) panics")),
            Ok(out) => {
                if out.len() != c.output_regs.len() {
                    return Err(format!("eval of {c:?} returns {} bits for {} outputs", out.len(), c.output_regs.len()));
                }
                match expected {
                    Err(why) => return Err(format!("validate() accepts {c:?}: {why}")),
                    Ok(e) if e != out => return Err(format!("eval of {c:?} on {inputs:?} gives {out:?}, reference {e:?}")),
                    _ => {}
                }
            }
        }
    }
    Ok(true)
}

const SHAPES: [&[usize]; 10] = [&[1], &[2], &[1, 1], &[0, 1], &[1, 0], &[2, 1], &[0], &[1, 0, 1], &[0, 1, 0], &[1, 0, 0, 1]];

fn ssa_gates(idx: &[usize]) -> Vec<Gate> {
    let mut v = vec![];
    for &a in idx {
        v.push(Gate::Not(a));
        for &b in idx {
            v.push(Gate::Xor(a, b));
            v.push(Gate::And(a, b));
        }
    }
    v
}

fn reg_insts(regs: &[u32], pi: &[u32]) -> Vec<Inst> {
    let mut v = vec![];
    for &o in regs {
        for &a in regs {
            v.push(Inst { out: Reg(o), op: Op::Not(Not(Reg(a))) });
            for &b in regs {
                v.push(Inst { out: Reg(o), op: Op::Xor(Xor(Reg(a), Reg(b))) });
                v.push(Inst { out: Reg(o), op: Op::And(And(Reg(a), Reg(b))) });
            }
        }
        for &p in pi {
            for &i in pi {
                v.push(Inst { out: Reg(o), op: Op::Input(Input { party: p, input: i }) });
            }
        }
    }
    v
}

pub fn search(args: &[String]) -> i32 {
    let seed = arg_u64(args, "--seed", 1);
    let depth = arg_u64(args, "--depth", 1) as usize; // exhaustive up to this many gates / instructions
    let random = arg_u64(args, "--random", 200000);
    std::panic::set_hook(Box::new(|_| {}));
    let mut n = 0u64;
    let mut accepted = 0u64;
    let fail = |args: &[String], what: String| {
        write_out(args, &format!("kind: c16-circuit\nobserved: {what}\n"));
        3
    };
    // ---- circuits produced by the compiler and by the conversion pass their validation (and evaluate without a panic)
    let known: Vec<String> = crate::util::arg(args, "--known").map(|s| s.split(',').map(|x| x.to_string()).collect()).unwrap_or_default();
    let mut f1 = 0;
    for (src, zero_bits) in COMPILED {
        let r = catch_unwind(AssertUnwindSafe(|| -> Result<(), String> {
            let prg = garble_lang::compile(src).map_err(|_| "rejected".to_string())?;
            let garble_lang::circuit_type::CircuitType::Ssa(c) = &prg.circuit else { return Ok(()) };
            c.validate().map_err(|e| format!("the compiled SSA circuit fails its validation: {e:?}"))?;
            let inputs: Vec<Vec<bool>> = c.input_gates.iter().map(|n| vec![true; *n]).collect();
            let out = c.eval(&inputs);
            if out.len() != c.output_gates.len() { return Err("eval returns the wrong number of output bits".to_string()); }
            let reg = RegCircuit::from(c);
            reg.validate().map_err(|e| format!("the converted register circuit fails its validation: {e:?}"))?;
            if reg.eval(&inputs) != out { return Err("the converted circuit computes something else".to_string()); }
            Ok(())
        }));
        let what = match r { Ok(Ok(())) => continue, Ok(Err(w)) if w == "rejected" => continue, Ok(Err(w)) => w, Err(_) => "panic while validating / evaluating / converting the compiled circuit".to_string() };
        if zero_bits && known.iter().any(|k| k == "C16-F1") {
            f1 += 1;
            continue;
        }
        return fail(args, format!("{what}\nprogram: {src}"));
    }
    if f1 > 0 {
        println!("known-finding: C16-F1 cases={f1} example=pub fn main(x: [bool; 0]) -> bool {{ true }} compiles to a circuit that its validation rejects");
    }
    // ---- SSA, exhaustive
    for shape in SHAPES {
        let inputs: usize = shape.iter().sum();
        for g in 0..=depth {
            let mut idx: Vec<usize> = (0..=(inputs + g)).collect();
            idx.push(usize::MAX);
            let gates = ssa_gates(&idx);
            let mut outs: Vec<Vec<usize>> = vec![vec![]];
            for &a in &idx {
                outs.push(vec![a]);
            }
            outs.push(vec![0, 0]);
            outs.push(vec![inputs + g, 0]);
            let mut stack: Vec<Vec<Gate>> = vec![vec![]];
            while let Some(gs) = stack.pop() {
                if gs.len() < g {
                    for x in &gates {
                        let mut y = gs.clone();
                        y.push(x.clone());
                        stack.push(y);
                    }
                    continue;
                }
                for o in &outs {
                    let c = SsaCircuit { input_gates: shape.to_vec(), gates: gs.clone(), output_gates: o.clone() };
                    n += 1;
                    match check_ssa(&c) {
                        Ok(a) => accepted += a as u64,
                        Err(w) => return fail(args, w),
                    }
                }
            }
        }
    }
    // ---- register, exhaustive
    let regs = [0u32, 1, 2, 3, u32::MAX];
    let pi = [0u32, 1, 2, u32::MAX];
    let insts = reg_insts(&regs, &pi);
    for shape in SHAPES {
        for g in 0..=depth {
            let mut stack: Vec<Vec<Inst>> = vec![vec![]];
            while let Some(is) = stack.pop() {
                if is.len() < g {
                    for x in &insts {
                        let mut y = is.clone();
                        y.push(*x);
                        stack.push(y);
                    }
                    continue;
                }
                for max_reg_count in 0..=3usize {
                    for o in [vec![], vec![Reg(0)], vec![Reg(1)], vec![Reg(2)], vec![Reg(u32::MAX)], vec![Reg(0), Reg(1)]] {
                        let c = RegCircuit { input_regs: shape.to_vec(), insts: is.clone(), max_reg_count, output_regs: o, and_ops: 0 };
                        n += 1;
                        match check_reg(&c) {
                            Ok(a) => accepted += a as u64,
                            Err(w) => return fail(args, w),
                        }
                    }
                }
            }
        }
    }
    let exhaustive = n;
    // ---- random deeper circuits
    let mut rng = Rng(seed ^ 0xC16);
    for _ in 0..random {
        let shape = SHAPES[rng.below(SHAPES.len())];
        let inputs: usize = shape.iter().sum();
        let g = 1 + rng.below(5);
        if rng.below(2) == 0 {
            let mut gates = vec![];
            for k in 0..g {
                let lim = inputs + k + 1;
                let mut pick = |rng: &mut Rng| if rng.below(12) == 0 { usize::MAX - rng.below(2) } else { rng.below(lim + 1) };
                let (a, b) = (pick(&mut rng), pick(&mut rng));
                gates.push(match rng.below(3) {
                    0 => Gate::Xor(a, b),
                    1 => Gate::And(a, b),
                    _ => Gate::Not(a),
                });
            }
            let no = rng.below(3);
            let outs = (0..no).map(|_| rng.below(inputs + g + 2)).collect();
            let c = SsaCircuit { input_gates: shape.to_vec(), gates, output_gates: outs };
            n += 1;
            match check_ssa(&c) {
                Ok(a) => accepted += a as u64,
                Err(w) => return fail(args, w),
            }
        } else {
            let mut is = vec![];
            let maxr = rng.below(5);
            // usually start with well-formed input instructions so that deeper circuits validate
            let mut pos = 0u32;
            if rng.below(4) != 0 {
                for (p, &bits) in shape.iter().enumerate() {
                    for i in 0..bits {
                        is.push(Inst { out: Reg(pos), op: Op::Input(Input { party: p as u32, input: i as u32 }) });
                        pos += 1;
                    }
                }
            }
            for _ in 0..g {
                let mut r = |rng: &mut Rng| if rng.below(12) == 0 { u32::MAX } else { rng.below(maxr + 2) as u32 };
                let (o, a, b) = (r(&mut rng), r(&mut rng), r(&mut rng));
                is.push(Inst {
                    out: Reg(o),
                    op: match rng.below(7) {
                        0 | 1 => Op::Xor(Xor(Reg(a), Reg(b))),
                        2 | 3 => Op::And(And(Reg(a), Reg(b))),
                        4 | 5 => Op::Not(Not(Reg(a))),
                        _ => Op::Input(Input { party: a, input: b }),
                    },
                });
            }
            let no = rng.below(3);
            let outs = (0..no).map(|_| Reg(rng.below(maxr + 2) as u32)).collect();
            let c = RegCircuit { input_regs: shape.to_vec(), insts: is, max_reg_count: maxr, output_regs: outs, and_ops: 0 };
            n += 1;
            match check_reg(&c) {
                Ok(a) => accepted += a as u64,
                Err(w) => return fail(args, w),
            }
        }
    }
    println!(
        "c16 search: {exhaustive} circuits enumerated exhaustively (<= {depth} gates/instructions, indices incl. out-of-range) + {} random; {accepted} accepted by validate(), all evaluated safely on every input of the declared shape",
        n - exhaustive
    );
    0
}
