//! C09: literal encoding through the public API (compile, literal_arg / parse_arg, as_bits, eval, parse_output)
//! against a reference value model with the documented bit layout.  Bounded differential check (stand-in for
//! the aggregate layers no contract reaches) and witness replay.

use crate::util::{arg_u64, field, write_out, Rng};
use garble_lang::literal::{Literal, VariantLiteral};
use garble_lang::token::{SignedNumType, UnsignedNumType};
use std::panic::{catch_unwind, AssertUnwindSafe};

thread_local! {
    static KNOWN_F1: std::cell::Cell<(bool, u64)> = const { std::cell::Cell::new((false, 0)) };
}

#[derive(Clone, Debug, PartialEq)]
pub enum T {
    Bool,
    U(u32, &'static str),
    I(u32, &'static str),
    Array(Box<T>, usize),
    Tuple(Vec<T>),
    Struct(&'static str),
    Enum(&'static str),
}

#[derive(Clone, Debug, PartialEq)]
pub enum V {
    Bool(bool),
    U(u64),
    I(i64),
    Seq(Vec<V>),                     // array / tuple / struct fields in definition order
    Enum(usize, Vec<V>),             // variant index, payload
}

const DEFS: &str = "struct S { a: u8, b: i16, c: bool }\nstruct P { x: (u8, bool), y: [i8; 2] }\nenum E { A, B(u8), C(i16, bool) }\nenum F { N, R(), D(u8, i16, bool), W(u64), X(S) }\n";

fn struct_fields(name: &str) -> Vec<(&'static str, T)> {
    match name {
        "S" => vec![("a", T::U(8, "u8")), ("b", T::I(16, "i16")), ("c", T::Bool)],
        _ => vec![("x", T::Tuple(vec![T::U(8, "u8"), T::Bool])), ("y", T::Array(Box::new(T::I(8, "i8")), 2))],
    }
}

fn enum_variants(name: &str) -> Vec<(&'static str, Vec<T>)> {
    if name == "F" {
        // R is an EMPTY TUPLE variant `R()` (not a unit variant): it prints and parses with its parentheses
        return vec![("N", vec![]), ("R", vec![]), ("D", vec![T::U(8, "u8"), T::I(16, "i16"), T::Bool]), ("W", vec![T::U(64, "u64")]), ("X", vec![T::Struct("S")])];
    }
    vec![("A", vec![]), ("B", vec![T::U(8, "u8")]), ("C", vec![T::I(16, "i16"), T::Bool])]
}

/// unit variant (no parentheses) or tuple variant (possibly empty)?
fn is_unit_variant(name: &str, k: usize) -> bool {
    enum_variants(name)[k].1.is_empty() && !(name == "F" && k == 1)
}

fn ty_name(t: &T) -> String {
    match t {
        T::Bool => "bool".into(),
        T::U(_, n) | T::I(_, n) => n.to_string(),
        T::Array(e, n) => format!("[{}; {n}]", ty_name(e)),
        T::Tuple(f) => format!("({})", f.iter().map(ty_name).collect::<Vec<_>>().join(", ")),
        T::Struct(n) | T::Enum(n) => n.to_string(),
    }
}

fn size(t: &T) -> usize {
    match t {
        T::Bool => 1,
        T::U(b, _) | T::I(b, _) => *b as usize,
        T::Array(e, n) => size(e) * n,
        T::Tuple(f) => f.iter().map(size).sum(),
        T::Struct(n) => struct_fields(n).iter().map(|(_, t)| size(t)).sum(),
        T::Enum(n) => {
            let vs = enum_variants(n);
            let mut tag = 0;
            while (1 << tag) < vs.len() {
                tag += 1;
            }
            tag + vs.iter().map(|(_, f)| f.iter().map(size).sum::<usize>()).max().unwrap_or(0)
        }
    }
}

/// documented layout: big-endian two's complement integers; aggregates concatenated; enums = tag then zero-padded payload
fn encode(t: &T, v: &V, out: &mut Vec<bool>) {
    match (t, v) {
        (T::Bool, V::Bool(b)) => out.push(*b),
        (T::U(bits, _), V::U(n)) => {
            for i in 0..*bits {
                out.push((n >> (bits - 1 - i)) & 1 == 1);
            }
        }
        (T::I(bits, _), V::I(n)) => {
            for i in 0..*bits {
                out.push((n >> (bits - 1 - i)) & 1 == 1);
            }
        }
        (T::Array(e, _), V::Seq(vs)) => vs.iter().for_each(|x| encode(e, x, out)),
        (T::Tuple(ts), V::Seq(vs)) => ts.iter().zip(vs).for_each(|(t, x)| encode(t, x, out)),
        (T::Struct(n), V::Seq(vs)) => struct_fields(n).iter().zip(vs).for_each(|((_, t), x)| encode(t, x, out)),
        (T::Enum(n), V::Enum(k, vs)) => {
            let variants = enum_variants(n);
            let total = size(t);
            let start = out.len();
            let mut tag = 0;
            while (1 << tag) < variants.len() {
                tag += 1;
            }
            for i in 0..tag {
                out.push((k >> (tag - 1 - i)) & 1 == 1);
            }
            variants[*k].1.iter().zip(vs).for_each(|(t, x)| encode(t, x, out));
            while out.len() < start + total {
                out.push(false);
            }
        }
        _ => panic!("value does not match type"),
    }
}

fn unum(name: &str) -> UnsignedNumType {
    match name {
        "u8" => UnsignedNumType::U8,
        "u16" => UnsignedNumType::U16,
        "u32" => UnsignedNumType::U32,
        "u64" => UnsignedNumType::U64,
        _ => UnsignedNumType::Usize,
    }
}

fn inum(name: &str) -> SignedNumType {
    match name {
        "i8" => SignedNumType::I8,
        "i16" => SignedNumType::I16,
        "i32" => SignedNumType::I32,
        _ => SignedNumType::I64,
    }
}

fn to_literal(t: &T, v: &V) -> Literal {
    match (t, v) {
        (T::Bool, V::Bool(true)) => Literal::True,
        (T::Bool, V::Bool(false)) => Literal::False,
        (T::U(_, n), V::U(x)) => Literal::NumUnsigned(*x, unum(n)),
        (T::I(_, n), V::I(x)) => Literal::NumSigned(*x, inum(n)),
        (T::Array(e, _), V::Seq(vs)) => Literal::Array(vs.iter().map(|x| to_literal(e, x)).collect()),
        (T::Tuple(ts), V::Seq(vs)) => Literal::Tuple(ts.iter().zip(vs).map(|(t, x)| to_literal(t, x)).collect()),
        (T::Struct(n), V::Seq(vs)) => Literal::Struct(
            n.to_string(),
            struct_fields(n).iter().zip(vs).map(|((f, t), x)| (f.to_string(), to_literal(t, x))).collect(),
        ),
        (T::Enum(n), V::Enum(k, vs)) => {
            let (vn, ts) = &enum_variants(n)[*k];
            let payload = if is_unit_variant(n, *k) { VariantLiteral::Unit } else { VariantLiteral::Tuple(ts.iter().zip(vs).map(|(t, x)| to_literal(t, x)).collect()) };
            Literal::Enum(n.to_string(), vn.to_string(), payload)
        }
        _ => panic!("value does not match type"),
    }
}

fn rand_value(rng: &mut Rng, t: &T) -> V {
    match t {
        T::Bool => V::Bool(rng.below(2) == 1),
        T::U(bits, _) => {
            let max = if *bits == 64 { u64::MAX } else { (1u64 << bits) - 1 };
            V::U(match rng.below(4) {
                0 => 0,
                1 => max,
                2 => max / 2 + 1,
                _ => rng.next() & max,
            })
        }
        T::I(bits, _) => {
            let min = if *bits == 64 { i64::MIN } else { -(1i64 << (bits - 1)) };
            let max = if *bits == 64 { i64::MAX } else { (1i64 << (bits - 1)) - 1 };
            V::I(match rng.below(5) {
                0 => min,
                1 => max,
                2 => -1,
                3 => 0,
                _ => {
                    let r = rng.next() as i64;
                    if *bits == 64 { r } else { (r % (1i64 << (bits - 1))).clamp(min, max) }
                }
            })
        }
        T::Array(e, n) => V::Seq((0..*n).map(|_| rand_value(rng, e)).collect()),
        T::Tuple(ts) => V::Seq(ts.iter().map(|t| rand_value(rng, t)).collect()),
        T::Struct(n) => V::Seq(struct_fields(n).iter().map(|(_, t)| rand_value(rng, t)).collect()),
        T::Enum(n) => {
            let vs = enum_variants(n);
            let k = rng.below(vs.len());
            V::Enum(k, vs[k].1.iter().map(|t| rand_value(rng, t)).collect())
        }
    }
}

pub fn types() -> Vec<T> {
    let u8t = T::U(8, "u8");
    vec![
        T::Bool,
        u8t.clone(),
        T::U(16, "u16"),
        T::U(32, "u32"),
        T::U(64, "u64"),
        T::U(32, "usize"),
        T::I(8, "i8"),
        T::I(16, "i16"),
        T::I(32, "i32"),
        T::I(64, "i64"),
        T::Array(Box::new(u8t.clone()), 3),
        T::Array(Box::new(T::U(16, "u16")), 4),
        T::Array(Box::new(T::I(8, "i8")), 3),
        T::Array(Box::new(T::U(32, "usize")), 2),
        T::Array(Box::new(T::Bool), 1),
        T::Array(Box::new(T::Tuple(vec![T::I(8, "i8"), T::Bool])), 2),
        T::Tuple(vec![u8t.clone(), T::Bool, T::I(16, "i16")]),
        T::Struct("S"),
        T::Struct("P"),
        T::Enum("E"),
        T::Enum("F"),
        T::Array(Box::new(T::Enum("F")), 3),
        T::Tuple(vec![T::Enum("F"), T::Bool, T::Enum("E")]),
        T::Array(Box::new(T::Enum("E")), 2),
        T::Tuple(vec![T::Struct("S"), T::Enum("E")]),
    ]
}

fn program(t: &T) -> String {
    format!("{DEFS}pub fn main(x: {0}, z: bool) -> {0} {{ x }}", ty_name(t))
}

/// checks one well-formed value: accepted, right size, documented bits, print/parse, identity program
fn check_value(prg: &garble_lang::GarbleProgram, t: &T, v: &V) -> Result<(), String> {
    let lit = to_literal(t, v);
    let mut expected = vec![];
    encode(t, v, &mut expected);
    let arg = prg.literal_arg(0, lit.clone()).map_err(|e| format!("literal_arg refuses the well-typed value {lit}: {e:?}"))?;
    let bits = arg.as_bits();
    if bits.len() != size(t) {
        return Err(format!("{lit} encodes to {} bits, size of {} is {}", bits.len(), ty_name(t), size(t)));
    }
    if bits != expected {
        return Err(format!("{lit}: as_bits differs from the documented layout"));
    }
    let text = lit.to_string();
    let parsed = match prg.parse_arg(0, &text) {
        Ok(p) => p,
        Err(e) => {
            let msg = format!("{e:?}");
            // known finding C09-F1: inside an array literal, aggregate elements whose integer components mix
            // non-negative and negative numbers are inferred as different unspecified types and rejected
            let f1 = matches!(t, T::Array(..))
                && (msg.contains("expected: Unsigned(Unspecified), actual: Signed(Unspecified)")
                    || msg.contains("expected: Signed(Unspecified), actual: Unsigned(Unspecified)")
                    || msg.contains("Tuple([Unsigned(Unspecified)") || msg.contains("Tuple([Signed(Unspecified)"));
            if f1 && KNOWN_F1.with(|k| k.get().0) {
                KNOWN_F1.with(|k| k.set((true, k.get().1 + 1)));
                return Ok(());
            }
            return Err(format!("printing {lit:?} gives `{text}`, which does not parse back: {msg}"));
        }
    };
    if parsed.as_bits() != expected {
        return Err(format!("printing {lit:?} gives `{text}`, which parses to different bits"));
    }
    let out = prg.circuit.eval(&[bits, vec![false]]);
    let decoded = prg.parse_output(&out).map_err(|e| format!("output of the identity program on {lit} does not decode: {e:?}"))?;
    if decoded != lit {
        return Err(format!("identity program on {lit} returns {decoded}"));
    }
    Ok(())
}

/// A literal the API may refuse; if it accepts it, the bits must be those of the canonical value it denotes.
fn check_hostile(prg: &garble_lang::GarbleProgram, what: &str, lit: Literal, canonical: Option<(&T, V)>) -> Result<(), String> {
    let r = catch_unwind(AssertUnwindSafe(|| prg.literal_arg(0, lit.clone()).map(|a| a.as_bits())));
    match r {
        Err(_) => Err(format!("{what}: literal_arg / as_bits panics on {lit:?}")),
        Ok(Err(_)) => Ok(()),
        Ok(Ok(bits)) => match canonical {
            None => Err(format!("{what}: {lit:?} is accepted although it denotes no value of the parameter type")),
            Some((t, v)) => {
                let mut expected = vec![];
                encode(t, &v, &mut expected);
                if bits == expected { Ok(()) } else { Err(format!("{what}: {lit:?} is accepted but encodes to different bits than the value it denotes")) }
            }
        },
    }
}

fn hostile_cases(prgs: &[(T, garble_lang::GarbleProgram)]) -> Result<u64, String> {
    let find = |t: &T| prgs.iter().find(|(x, _)| x == t).map(|(_, p)| p).unwrap();
    let mut n = 0;
    let u8t = T::U(8, "u8");
    let p = find(&u8t);
    for v in [256u64, 300, u64::MAX] {
        n += 1;
        check_hostile(p, "out-of-range unsigned number", Literal::NumUnsigned(v, UnsignedNumType::U8), None)?;
    }
    check_hostile(p, "number of another type", Literal::NumUnsigned(3, UnsignedNumType::U16), None)?;
    let p = find(&T::I(8, "i8"));
    for v in [128i64, -129, i64::MIN, i64::MAX] {
        n += 1;
        check_hostile(p, "out-of-range signed number", Literal::NumSigned(v, SignedNumType::I8), None)?;
    }
    let p = find(&T::U(32, "usize"));
    n += 1;
    check_hostile(p, "out-of-range usize", Literal::NumUnsigned(1 << 32, UnsignedNumType::Usize), None)?;
    // struct S { a: u8, b: i16, c: bool }
    let s = T::Struct("S");
    let p = find(&s);
    let a = ("a".to_string(), Literal::NumUnsigned(7, UnsignedNumType::U8));
    let b = ("b".to_string(), Literal::NumSigned(-2, SignedNumType::I16));
    let c = ("c".to_string(), Literal::True);
    let canon = V::Seq(vec![V::U(7), V::I(-2), V::Bool(true)]);
    n += 4;
    check_hostile(p, "permuted struct fields", Literal::Struct("S".into(), vec![c.clone(), a.clone(), b.clone()]), Some((&s, canon.clone())))?;
    check_hostile(p, "duplicated struct field", Literal::Struct("S".into(), vec![a.clone(), a.clone(), c.clone()]), None)?;
    check_hostile(p, "missing struct field", Literal::Struct("S".into(), vec![a.clone(), b.clone()]), None)?;
    check_hostile(p, "unknown struct", Literal::Struct("Q".into(), vec![a.clone(), b.clone(), c.clone()]), None)?;
    // enum E { A, B(u8), C(i16, bool) }
    let e = T::Enum("E");
    let p = find(&e);
    n += 5;
    check_hostile(p, "enum variant with too few fields", Literal::Enum("E".into(), "C".into(), VariantLiteral::Tuple(vec![Literal::NumSigned(1, SignedNumType::I16)])), None)?;
    check_hostile(p, "enum variant with too many fields", Literal::Enum("E".into(), "B".into(), VariantLiteral::Tuple(vec![Literal::NumUnsigned(1, UnsignedNumType::U8), Literal::True])), None)?;
    check_hostile(p, "unit variant with fields", Literal::Enum("E".into(), "A".into(), VariantLiteral::Tuple(vec![Literal::True])), None)?;
    check_hostile(p, "tuple variant without fields", Literal::Enum("E".into(), "B".into(), VariantLiteral::Unit), None)?;
    check_hostile(p, "unknown variant", Literal::Enum("E".into(), "Z".into(), VariantLiteral::Unit), None)?;
    // arrays: ranges and repeats
    let arr = T::Array(Box::new(u8t.clone()), 3);
    let p = find(&arr);
    n += 4;
    check_hostile(p, "range literal", Literal::Range(2, 5, UnsignedNumType::U8), Some((&arr, V::Seq(vec![V::U(2), V::U(3), V::U(4)]))))?;
    check_hostile(p, "inverted range literal", Literal::Range(5, 2, UnsignedNumType::U8), None)?;
    check_hostile(p, "range literal beyond the element type", Literal::Range(254, 257, UnsignedNumType::U8), None)?;
    check_hostile(p, "array repeat", Literal::ArrayRepeat(Box::new(Literal::NumUnsigned(9, UnsignedNumType::U8)), 3), Some((&arr, V::Seq(vec![V::U(9), V::U(9), V::U(9)]))))?;
    check_hostile(p, "array of wrong length", Literal::Array(vec![Literal::NumUnsigned(9, UnsignedNumType::U8)]), None)?;
    // text literals that denote no value of the parameter type must be refused by parse_arg (never truncated)
    let texts: [(T, &[&str]); 6] = [
        (T::U(8, "u8"), &["256", "256u8", "300u8", "18446744073709551616", "-1", "1u16"]),
        (T::I(8, "i8"), &["128", "128i8", "-129", "-129i8", "255u8", "18446744073709551615"]),
        (T::U(16, "u16"), &["65536", "65536u16"]),
        (T::U(32, "usize"), &["4294967296", "4294967296usize", "4294967301usize", "18446744073709551615usize"]),
        (T::I(16, "i16"), &["32768", "-32769", "32768i16"]),
        (T::Bool, &["1", "0", "2"]),
    ];
    for (t, lits) in texts.iter() {
        let p = find(t);
        for l in lits.iter() {
            n += 1;
            match catch_unwind(AssertUnwindSafe(|| p.parse_arg(0, l).map(|a| a.as_bits()))) {
                Err(_) => return Err(format!("parse_arg panics on the text `{l}` for a parameter of type {}", ty_name(t))),
                Ok(Ok(bits)) => return Err(format!("the text `{l}` is accepted for a parameter of type {} (encoded as {} bits) although it denotes no value of that type", ty_name(t), bits.len())),
                Ok(Err(_)) => {}
            }
        }
    }
    // range literals `a..b` as text for array parameters: an accepted range encodes to exactly the parameter's size and to the bits of
    // the array [a, a+1, .., b-1] of the parameter's element type (also when the range is written without a suffix); a range whose
    // length or values do not fit is refused
    let ranges: [(T, &[(&str, Option<u64>)]); 4] = [
        (T::Array(Box::new(T::U(8, "u8")), 3), &[("1..4", Some(1)), ("1u8..4u8", Some(1)), ("253..256", Some(253)), ("0..3", Some(0)), ("254..257", None), ("1..3", None), ("1..5", None), ("300..303", None), ("1u16..4u16", None), ("254u8..257u8", None)]),
        (T::Array(Box::new(T::U(16, "u16")), 4), &[("10..14", Some(10)), ("65532..65536", Some(65532)), ("65533..65537", None), ("10u16..14u16", Some(10)), ("10u8..14u8", None)]),
        (T::Array(Box::new(T::I(8, "i8")), 3), &[("1..4", Some(1)), ("125..128", Some(125)), ("126..129", None)]),
        (T::Array(Box::new(T::U(32, "usize")), 2), &[("7..9", Some(7)), ("7usize..9usize", Some(7)), ("4294967295..4294967297", None), ("4294967295usize..4294967297usize", None), ("4294967294usize..4294967296usize", Some(4294967294))]),
    ];
    for (t, cases) in ranges.iter() {
        let p = find(t);
        let (et, k) = if let T::Array(e, k) = t { (e.as_ref().clone(), *k) } else { unreachable!() };
        for (text, first) in cases.iter() {
            n += 1;
            let got = catch_unwind(AssertUnwindSafe(|| p.parse_arg(0, text).map(|a| a.as_bits())));
            match (got, first) {
                (Err(_), _) => return Err(format!("parse_arg panics on the range `{text}` for a parameter of type {}", ty_name(t))),
                (Ok(Ok(bits)), None) => return Err(format!("the range `{text}` is accepted for a parameter of type {} (encoded as {} bits) although it denotes no value of that type", ty_name(t), bits.len())),
                (Ok(Err(e)), Some(_)) => return Err(format!("the range `{text}` is refused for a parameter of type {}: {e:?}", ty_name(t))),
                (Ok(Err(_)), None) => {}
                (Ok(Ok(bits)), Some(a)) => {
                    let v = V::Seq((0..k as u64).map(|i| if let T::I(..) = et { V::I((a + i) as i64) } else { V::U(a + i) }).collect());
                    let mut want = vec![];
                    encode(t, &v, &mut want);
                    if bits != want {
                        return Err(format!("the range `{text}` for a parameter of type {} encodes to {} bits {:?}, the array it denotes to {} bits {:?}", ty_name(t), bits.len(), &bits[..bits.len().min(40)], want.len(), &want[..want.len().min(40)]));
                    }
                }
            }
        }
    }
    Ok(n)
}

/// a parameter whose array size is a constant supplied at compile time: the text forms of its values are accepted and encode to the
/// parameter's size; anything else is refused with an error, never a panic
fn const_sized() -> Result<u64, String> {
    use std::collections::HashMap;
    let src = "const N: usize = PARTY_0::N;\npub fn main(s: [u8; N]) -> [u8; N] { s }";
    let consts = HashMap::from([("PARTY_0".to_string(), HashMap::from([("N".to_string(), Literal::NumUnsigned(3, UnsignedNumType::Usize))]))]);
    let prg = garble_lang::compile_with_constants(src, consts).map_err(|e| format!("the identity program over [u8; N] does not compile: {e:?}"))?;
    let want: Vec<bool> = [1u8, 2, 3].iter().flat_map(|v| (0..8).map(move |i| (v >> (7 - i)) & 1 == 1)).collect();
    let mut n = 0;
    for (text, expect) in [("[1, 2, 3]", Some(&want)), ("[1u8, 2u8, 3u8]", Some(&want)), ("1..4", Some(&want)), ("[1; N]", None), ("[1, 2]", None), ("[1, 2, 3, 4]", None), ("[true; 3]", None)] {
        n += 1;
        let r = catch_unwind(AssertUnwindSafe(|| prg.parse_arg(0, text).map(|a| a.as_bits())));
        match (r, expect) {
            (Err(_), _) => return Err(format!("parse_arg panics on `{text}` for a parameter of type [u8; N] with N = 3")),
            (Ok(Ok(bits)), Some(w)) if &bits == w => {}
            (Ok(Ok(bits)), Some(_)) => return Err(format!("`{text}` for a parameter of type [u8; N] with N = 3 encodes to {} bits {:?}", bits.len(), &bits[..bits.len().min(32)])),
            (Ok(Err(e)), Some(_)) => return Err(format!("`{text}` is refused for a parameter of type [u8; N] with N = 3: {e:?}")),
            (Ok(Ok(bits)), None) if bits.len() == 24 => {} // accepted with the parameter's size (e.g. a repeat literal): fine
            (Ok(Ok(bits)), None) => return Err(format!("`{text}` is accepted for a parameter of type [u8; N] with N = 3 and encodes to {} bits", bits.len())),
            (Ok(Err(_)), None) => {}
        }
    }
    Ok(n)
}

pub fn search(args: &[String]) -> i32 {
    let seed = arg_u64(args, "--seed", 1);
    let per_type = arg_u64(args, "--values", 60);
    if crate::util::arg(args, "--known").map(|k| k.split(',').any(|x| x == "C09-F1")).unwrap_or(false) {
        KNOWN_F1.with(|k| k.set((true, 0)));
    }
    std::panic::set_hook(Box::new(|_| {}));
    let mut rng = Rng(seed ^ 0xC09);
    let mut prgs = vec![];
    for t in types() {
        match garble_lang::compile(&program(&t)) {
            Ok(p) => prgs.push((t, p)),
            Err(e) => {
                write_out(args, &format!("kind: c09-literal\nobserved: identity program for {} does not compile: {e:?}\n", ty_name(&t)));
                return 3;
            }
        }
    }
    let mut n = 0u64;
    for (t, p) in &prgs {
        for _ in 0..per_type {
            let v = rand_value(&mut rng, t);
            n += 1;
            let r = catch_unwind(AssertUnwindSafe(|| check_value(p, t, &v)));
            let w = match r {
                Err(_) => Some("the API panics".to_string()),
                Ok(Err(w)) => Some(w),
                Ok(Ok(())) => None,
            };
            if let Some(w) = w {
                write_out(args, &format!("kind: c09-literal\ntype: {}\nvalue: {:?}\nobserved: {w}\n", ty_name(t), to_literal(t, &v)));
                return 3;
            }
        }
    }
    KNOWN_F1.with(|k| {
        if k.get().1 > 0 {
            println!("known-finding: C09-F1 cases={} example=`[(0, true), (-128, true)]` as [(i8, bool); 2]", k.get().1);
        }
    });
    match hostile_cases(&prgs).and_then(|h| const_sized().map(|c| h + c)) {
        Ok(h) => {
            println!("c09 search: {n} values of {} types (print/parse, size, documented layout, identity program) and {h} hostile literals agree with the reference model", prgs.len());
            0
        }
        Err(w) => {
            write_out(args, &format!("kind: c09-literal\nobserved: {w}\n"));
            3
        }
    }
}

pub fn replay(text: &str) -> i32 {
    // the hostile cases and the value generator are deterministic: re-run the search with the recorded seed
    let seed = field(text, "seed").unwrap_or_else(|| "1".into());
    let r = search(&["--seed".to_string(), seed]);
    if r == 3 {
        println!("replay: REPRODUCED");
    }
    r
}
