//! C11: Bristol export / import.  Bounded differential (witness search + replay) on the real `Circuit::format_as_bristol` and
//! `Circuit::bristol_to_garble`:
//!  * round trip: random small SSA circuits (1-3 parties, up to 6 input bits, up to 14 gates, 161 arbitrary panic outputs, 1-5 outputs with
//!    repetitions, outputs that feed later gates) and a few compiled programs are exported, the text is checked for well-formedness by an
//!    independent reader (counts, every non-input wire assigned exactly once and before use, outputs = the last wires) and evaluated, the file
//!    is imported again, and all three are compared on EVERY input assignment;
//!  * an output that is an input wire must be refused with `OutputWireIsInput`;
//!  * malformed files: token / line mutations of valid exports (numbers replaced by 0, 1, huge values, text; tokens and lines deleted,
//!    duplicated, swapped; truncation) and random token lines must give a circuit or an error - a panic is a violation.

use crate::util::{arg, arg_u64, field, write_out, Rng};
use garble_lang::circuit::{Circuit, Gate};
use std::panic::{catch_unwind, AssertUnwindSafe};
use std::path::PathBuf;

const PANIC_BITS: usize = 161;

fn tmp_path(tag: &str) -> PathBuf {
    let dir = std::env::var("TMPDIR").map(PathBuf::from).unwrap_or_else(|_| std::env::temp_dir());
    dir.join(format!("c11_{}_{tag}.txt", std::process::id()))
}

fn all_inputs(shape: &[usize]) -> Vec<Vec<Vec<bool>>> {
    let n: usize = shape.iter().sum();
    (0..(1usize << n))
        .map(|m| {
            let mut k = 0;
            shape.iter().map(|s| (0..*s).map(|_| { let b = (m >> k) & 1 == 1; k += 1; b }).collect()).collect()
        })
        .collect()
}

fn gate_src(g: &Gate) -> String {
    match g {
        Gate::Xor(a, b) => format!("X{a},{b}"),
        Gate::And(a, b) => format!("A{a},{b}"),
        Gate::Not(a) => format!("N{a}"),
    }
}

fn circuit_src(c: &Circuit) -> String {
    format!(
        "parties: {}\ngates: {}\noutputs: {}",
        c.input_gates.iter().map(|x| x.to_string()).collect::<Vec<_>>().join(" "),
        c.gates.iter().map(gate_src).collect::<Vec<_>>().join(" "),
        c.output_gates.iter().map(|x| x.to_string()).collect::<Vec<_>>().join(" ")
    )
}

fn parse_circuit(text: &str) -> Option<Circuit> {
    let nums = |s: String| s.split_whitespace().map(|x| x.parse::<usize>().ok()).collect::<Option<Vec<_>>>();
    let input_gates = nums(field(text, "parties")?)?;
    let output_gates = nums(field(text, "outputs")?)?;
    let mut gates = vec![];
    for g in field(text, "gates")?.split_whitespace() {
        let ops: Vec<usize> = g[1..].split(',').map(|x| x.parse().ok()).collect::<Option<_>>()?;
        gates.push(match &g[..1] {
            "X" => Gate::Xor(ops[0], *ops.get(1)?),
            "A" => Gate::And(ops[0], *ops.get(1)?),
            "N" => Gate::Not(ops[0]),
            _ => return None,
        });
    }
    Some(Circuit { input_gates, gates, output_gates })
}

/// independent reader of the exported text: Ok(outputs for the given input bits) or a description of what is ill-formed
struct Bristol {
    n_in: usize,
    n_wires: usize,
    n_out: usize,
    gates: Vec<(Vec<usize>, usize, String)>,
}

fn read_bristol(text: &str, c: &Circuit) -> Result<Bristol, String> {
    let lines: Vec<&str> = text.lines().collect();
    let nums = |l: &str| l.split_whitespace().map(|x| x.parse::<usize>().map_err(|_| format!("not a number: {x:?}"))).collect::<Result<Vec<_>, _>>();
    if lines.len() < 3 { return Err("fewer than three header lines".into()); }
    let h = nums(lines[0])?;
    if h.len() != 2 { return Err(format!("first line is {:?}", lines[0])); }
    let p = nums(lines[1])?;
    if p.is_empty() || p[0] != c.input_gates.len() || p[1..] != c.input_gates[..] {
        return Err(format!("input line {:?} does not list the parties {:?}", lines[1], c.input_gates));
    }
    let n_in: usize = c.input_gates.iter().sum();
    let o = nums(lines[2])?;
    let n_out = c.output_gates.len() - PANIC_BITS;
    if o != vec![1, n_out] { return Err(format!("output line {:?}, expected \"1 {n_out}\"", lines[2])); }
    let mut gates = vec![];
    for l in &lines[3..] {
        let t: Vec<&str> = l.split_whitespace().collect();
        if t.is_empty() { continue; }
        let k: usize = t[0].parse().map_err(|_| format!("gate line {l:?}"))?;
        if t.len() != k + 4 || t[1] != "1" { return Err(format!("gate line {l:?}")); }
        let ins = t[2..2 + k].iter().map(|x| x.parse::<usize>().map_err(|_| format!("gate line {l:?}"))).collect::<Result<Vec<_>, _>>()?;
        let out: usize = t[2 + k].parse().map_err(|_| format!("gate line {l:?}"))?;
        let ty = t[3 + k].to_string();
        let arity = match ty.as_str() { "XOR" | "AND" => 2, "INV" => 1, _ => return Err(format!("gate type in {l:?}")) };
        if arity != k { return Err(format!("arity in {l:?}")); }
        gates.push((ins, out, ty));
    }
    if h[0] != gates.len() { return Err(format!("the header declares {} gates, the file has {}", h[0], gates.len())); }
    if h[1] != n_in + gates.len() { return Err(format!("the header declares {} wires, inputs + gates are {}", h[1], n_in + gates.len())); }
    let mut assigned = vec![false; h[1]];
    for a in assigned.iter_mut().take(n_in) { *a = true; }
    for (ins, out, _) in &gates {
        for i in ins {
            if *i >= h[1] || !assigned[*i] { return Err(format!("wire {i} is used before it is assigned")); }
        }
        if *out >= h[1] { return Err(format!("wire {out} is out of range")); }
        if assigned[*out] { return Err(format!("wire {out} is assigned twice (or is an input)")); }
        assigned[*out] = true;
    }
    if let Some(w) = assigned.iter().position(|a| !a) { return Err(format!("wire {w} is never assigned")); }
    Ok(Bristol { n_in, n_wires: h[1], n_out, gates })
}

impl Bristol {
    fn eval(&self, inputs: &[Vec<bool>]) -> Vec<bool> {
        let mut w = vec![false; self.n_wires];
        for (k, b) in inputs.iter().flatten().enumerate() { w[k] = *b; }
        debug_assert_eq!(inputs.iter().flatten().count(), self.n_in);
        for (ins, out, ty) in &self.gates {
            w[*out] = match ty.as_str() { "XOR" => w[ins[0]] ^ w[ins[1]], "AND" => w[ins[0]] & w[ins[1]], _ => !w[ins[0]] };
        }
        w[self.n_wires - self.n_out..].to_vec()
    }
}

/// Ok(true) checked, Ok(false) not applicable (the circuit itself is not valid), Err(description)
pub fn check_roundtrip(c: &Circuit, tag: &str) -> Result<bool, String> {
    if c.validate().is_err() || c.output_gates.len() <= PANIC_BITS { return Ok(false); }
    let n_in: usize = c.input_gates.iter().sum();
    let path = tmp_path(tag);
    let exported = catch_unwind(AssertUnwindSafe(|| c.format_as_bristol(&path)));
    let out_is_input = c.output_gates[PANIC_BITS..].iter().any(|w| *w < n_in);
    let res = (|| {
        match exported {
            Err(_) => return Err("observed: format_as_bristol panicked".to_string()),
            Ok(Err(e)) => {
                return if out_is_input { Ok(true) } else { Err(format!("observed: format_as_bristol refused a circuit whose outputs are not input wires: {e}")) };
            }
            Ok(Ok(())) => {
                if out_is_input { return Err("observed: an output is an input wire, but format_as_bristol exported the circuit".to_string()); }
            }
        }
        let text = std::fs::read_to_string(&path).map_err(|e| format!("observed: cannot read the exported file: {e}"))?;
        let b = read_bristol(&text, c).map_err(|e| format!("observed: the exported text is not well-formed Bristol: {e}\n--- exported ---\n{text}--- end ---"))?;
        let imported = match catch_unwind(|| Circuit::bristol_to_garble(&path)) {
            Err(_) => return Err(format!("observed: bristol_to_garble panicked on the exported file\n--- exported ---\n{text}--- end ---")),
            Ok(Err(e)) => return Err(format!("observed: bristol_to_garble refused the exported file: {e}\n--- exported ---\n{text}--- end ---")),
            Ok(Ok(i)) => i,
        };
        if imported.input_gates != c.input_gates { return Err(format!("observed: the imported circuit has parties {:?}", imported.input_gates)); }
        if imported.validate().is_err() { return Err(format!("observed: the imported circuit does not pass its validation\n--- exported ---\n{text}--- end ---")); }
        for inp in all_inputs(&c.input_gates) {
            let want = c.eval(&inp)[PANIC_BITS..].to_vec();
            let bits = |v: &[bool]| v.iter().map(|b| if *b { '1' } else { '0' }).collect::<String>();
            let inp_s = inp.iter().map(|p| bits(p)).collect::<Vec<_>>().join(" ");
            let via_text = b.eval(&inp);
            if via_text != want {
                return Err(format!("input: {inp_s}\nobserved: the exported text computes {} (the circuit computes {})\n--- exported ---\n{text}--- end ---", bits(&via_text), bits(&want)));
            }
            let got = imported.eval(&inp);
            if got != want {
                return Err(format!("input: {inp_s}\nobserved: the re-imported circuit computes {} (the circuit computes {})\n--- exported ---\n{text}--- end ---", bits(&got), bits(&want)));
            }
        }
        Ok(true)
    })();
    let _ = std::fs::remove_file(&path);
    res
}

fn random_circuit(rng: &mut Rng) -> Circuit {
    let parties = 1 + rng.below(3);
    let mut shape: Vec<usize> = (0..parties).map(|_| 1 + rng.below(3)).collect();
    while shape.iter().sum::<usize>() > 6 { let k = rng.below(shape.len()); if shape[k] > 1 { shape[k] -= 1; } }
    let n_in: usize = shape.iter().sum();
    let n_gates = 1 + rng.below(14);
    let mut gates = vec![];
    for k in 0..n_gates {
        let avail = n_in + k;
        let pick = |rng: &mut Rng| if rng.below(3) == 0 && k > 0 { n_in + rng.below(k) } else { rng.below(avail) };
        gates.push(match rng.below(3) { 0 => Gate::Xor(pick(rng), pick(rng)), 1 => Gate::And(pick(rng), pick(rng)), _ => Gate::Not(pick(rng)) });
    }
    let total = n_in + n_gates;
    let mut outs: Vec<usize> = (0..PANIC_BITS).map(|_| rng.below(total)).collect();
    let n_out = 1 + rng.below(5);
    let mut chosen: Vec<usize> = vec![];
    for _ in 0..n_out {
        let w = if !chosen.is_empty() && rng.below(3) == 0 {
            chosen[rng.below(chosen.len())] // a repeated output
        } else if rng.below(25) == 0 {
            rng.below(n_in) // an input wire as output: must be refused
        } else {
            n_in + rng.below(n_gates)
        };
        chosen.push(w);
    }
    outs.extend(chosen);
    Circuit { input_gates: shape, gates, output_gates: outs }
}

const PROGRAMS: [&str; 5] = [
    "pub fn main(x: u8, y: u8) -> (u8, u8) { let z = x & y; (z, z) }",
    "pub fn main(x: u8, y: u8) -> (u8, u8) { let z = x & y; (z, !z) }",
    "pub fn main(x: u8, y: u8) -> (bool, u8, bool) { (x < y, x ^ y, x < y) }",
    "pub fn main(x: u8) -> [bool; 3] { let b = x > 7u8; [b, b, !b] }",
    "pub fn main(x: u8, y: u8, z: u8) -> (u8, u8, bool) { let s = (x & 15u8) + (y & 15u8); (s & z, s, true) }",
];

fn check_program(src: &str, rng: &mut Rng, k: usize) -> Result<bool, String> {
    let prg = match garble_lang::compile(src) { Ok(p) => p, Err(_) => return Ok(false) };
    let garble_lang::circuit_type::CircuitType::Ssa(c) = &prg.circuit else { return Ok(false) };
    let path = tmp_path(&format!("p{k}"));
    let r = (|| {
        let n_in: usize = c.input_gates.iter().sum();
        if c.output_gates[PANIC_BITS..].iter().any(|w| *w < n_in) {
            return Ok(false); // an output is an input wire: outside the property
        }
        c.format_as_bristol(&path).map_err(|e| format!("observed: format_as_bristol failed for a compiled program: {e}"))?;
        let text = std::fs::read_to_string(&path).map_err(|e| format!("observed: cannot read the exported file: {e}"))?;
        let b = read_bristol(&text, c).map_err(|e| format!("observed: the exported text is not well-formed Bristol: {e}"))?;
        let imported = Circuit::bristol_to_garble(&path).map_err(|e| format!("observed: bristol_to_garble refused the exported file: {e}"))?;
        for _ in 0..40 {
            let inp: Vec<Vec<bool>> = c.input_gates.iter().map(|s| (0..*s).map(|_| rng.below(2) == 1).collect()).collect();
            let want = c.eval(&inp)[PANIC_BITS..].to_vec();
            if b.eval(&inp) != want || imported.eval(&inp) != want {
                let bits = |v: &[bool]| v.iter().map(|b| if *b { '1' } else { '0' }).collect::<String>();
                return Err(format!("input: {}\nobserved: after export / import the program computes {} / {} (the circuit computes {})",
                    inp.iter().map(|p| bits(p)).collect::<Vec<_>>().join(" "), bits(&b.eval(&inp)), bits(&imported.eval(&inp)), bits(&want)));
            }
        }
        Ok(true)
    })();
    let _ = std::fs::remove_file(&path);
    r.map_err(|e| format!("{e}\nprogram: {src}"))
}

// ------------------------------------------------------------------------------------------------ malformed files
fn import_outcome(text: &str, tag: &str) -> Result<(), String> {
    let path = tmp_path(tag);
    if std::fs::write(&path, text).is_err() { return Ok(()); }
    let r = catch_unwind(|| Circuit::bristol_to_garble(&path).map(|c| { let _ = c.validate(); }));
    let _ = std::fs::remove_file(&path);
    match r {
        Ok(_) => Ok(()),
        Err(_) => Err("observed: bristol_to_garble panicked (a file must give a circuit or an error)".to_string()),
    }
}

const HOSTILE: [&str; 12] = ["0", "1", "2", "7", "160", "18446744073709551615", "18446744073709551614", "9223372036854775808", "4294967296", "-1", "x", "1.5"];

fn mutations(text: &str, rng: &mut Rng, n: usize) -> Vec<String> {
    let lines: Vec<Vec<String>> = text.lines().map(|l| l.split_whitespace().map(|t| t.to_string()).collect()).collect();
    let join = |ls: &Vec<Vec<String>>| ls.iter().map(|l| l.join(" ")).collect::<Vec<_>>().join("\n") + "\n";
    let mut out = vec![];
    // every token of the three header lines replaced by every hostile value
    for li in 0..lines.len().min(3) {
        for ti in 0..lines[li].len() {
            for h in HOSTILE {
                let mut m = lines.clone();
                m[li][ti] = h.to_string();
                out.push(join(&m));
            }
        }
    }
    // absurd sizes that are consistent with each other (no allocation of that size can succeed): wires = inputs = H
    for h in ["18446744073709551615", "9223372036854775808", "4611686018427387904", "2305843009213693952"] {
        let mut m = lines.clone();
        if m.len() >= 3 && m[0].len() == 2 {
            m[0][1] = h.to_string();
            m[1] = vec!["1".to_string(), h.to_string()];
            out.push(join(&m));
            m[2] = vec!["1".to_string(), h.to_string()];
            out.push(join(&m));
        }
    }
    for _ in 0..n {
        let mut m = lines.clone();
        let li = rng.below(m.len());
        match rng.below(8) {
            0 if !m[li].is_empty() => { let ti = rng.below(m[li].len()); m[li][ti] = HOSTILE[rng.below(HOSTILE.len())].to_string(); }
            1 if !m[li].is_empty() => { let ti = rng.below(m[li].len()); m[li].remove(ti); }
            2 => { m.remove(li); }
            3 => { let l = m[li].clone(); m.insert(li, l); }
            4 => { let lj = rng.below(m.len()); m.swap(li, lj); }
            5 if !m[li].is_empty() => { let ti = rng.below(m[li].len()); let t = m[li][ti].clone(); m[li].insert(ti, t); }
            6 => { let s = join(&m); let cut = rng.below(s.len().max(1)); out.push(s[..cut].to_string()); continue; }
            _ => {
                let toks = ["0", "1", "2", "3", "XOR", "AND", "INV", "EQ", "18446744073709551615", "", "a"];
                m[li] = (0..rng.below(7)).map(|_| toks[rng.below(toks.len())].to_string()).collect();
            }
        }
        out.push(join(&m));
    }
    out
}

// ------------------------------------------------------------------------------------------------ search / replay
fn report(kind: &str, seed: u64, body: &str) -> String {
    format!("kind: {kind}\nseed: {seed}\n{body}\n")
}

pub fn search(args: &[String]) -> i32 {
    let seed = arg_u64(args, "--seed", 1);
    let circuits = arg_u64(args, "--circuits", 1500);
    let muts = arg_u64(args, "--mutations", 40) as usize;
    let _known = arg(args, "--known");
    let mut rng = Rng(seed ^ 0xC11);
    let prev = std::panic::take_hook();
    if std::env::var("REPLAY_DEBUG").is_err() { std::panic::set_hook(Box::new(|_| {})); }
    let (mut checked, mut skipped, mut files) = (0u64, 0u64, 0u64);
    let mut found = None;
    'outer: {
        for (k, p) in PROGRAMS.iter().enumerate() {
            match check_program(p, &mut rng, k) {
                Ok(true) => checked += 1,
                Ok(false) => skipped += 1,
                Err(w) => { found = Some(report("c11-program", seed, &w)); break 'outer; }
            }
        }
        for k in 0..circuits {
            let c = random_circuit(&mut rng);
            match check_roundtrip(&c, "rt") {
                Ok(true) => checked += 1,
                Ok(false) => skipped += 1,
                Err(w) => { found = Some(report("c11-roundtrip", seed, &format!("{}\n{w}", circuit_src(&c)))); break 'outer; }
            }
            // malformed files derived from a valid export (every 10th circuit)
            if k % 10 == 0 {
                let path = tmp_path("m");
                if c.format_as_bristol(&path).is_ok() {
                    let text = std::fs::read_to_string(&path).unwrap_or_default();
                    let _ = std::fs::remove_file(&path);
                    for m in mutations(&text, &mut rng, muts) {
                        files += 1;
                        if let Err(w) = import_outcome(&m, "mf") {
                            found = Some(report("c11-malformed", seed, &format!("{w}\n--- file ---\n{m}--- end ---")));
                            break 'outer;
                        }
                    }
                } else {
                    let _ = std::fs::remove_file(&path);
                }
            }
        }
    }
    std::panic::set_hook(prev);
    match found {
        Some(text) => { write_out(args, &text); 3 }
        None => {
            println!("c11 search: {checked} circuits / programs exported, read back by an independent reader and re-imported, compared on every input assignment ({skipped} skipped); {files} malformed files imported without a panic");
            0
        }
    }
}

pub fn replay(text: &str) -> i32 {
    let kind = field(text, "kind").unwrap_or_default();
    let prev = std::panic::take_hook();
    std::panic::set_hook(Box::new(|_| {}));
    let r = match kind.as_str() {
        "c11-roundtrip" => match parse_circuit(text) {
            Some(c) => match check_roundtrip(&c, "replay") { Err(w) => { println!("reproduced: {w}"); 3 } Ok(_) => { println!("not reproduced"); 0 } },
            None => { eprintln!("cannot parse the circuit of the replay file"); 2 }
        },
        "c11-malformed" => {
            let (Some(s), Some(e)) = (text.find("--- file ---\n"), text.find("--- end ---")) else { eprintln!("no file in the replay"); return 2 };
            match import_outcome(&text[s + 13..e], "replay") { Err(w) => { println!("reproduced: {w}"); 3 } Ok(()) => { println!("not reproduced"); 0 } }
        }
        "c11-program" => {
            let Some(p) = field(text, "program") else { eprintln!("no program in the replay"); return 2 };
            let mut rng = Rng(1);
            match check_program(&p, &mut rng, 0) { Err(w) => { println!("reproduced: {w}"); 3 } Ok(_) => { println!("not reproduced"); 0 } }
        }
        _ => 2,
    };
    std::panic::set_hook(prev);
    r
}
