//! C04 / C15: differential check of the real gate builder against literal evaluation of the requests.

use crate::util::{arg_u64, field, write_out, Rng};
use garble_lang::circuit::{Circuit, Gate};
use garble_lang::verif_hooks::Builder;

#[derive(Clone, Copy, Debug, PartialEq)]
pub enum Req {
    Xor(usize, usize),
    And(usize, usize),
    Not(usize),
    Or(usize, usize),
    Eq(usize, usize),
    Mux(usize, usize, usize),
    Adder(usize, usize, usize),
    Condswap(usize, usize, usize),
}

impl Req {
    fn to_string(self) -> String {
        match self {
            Req::Xor(a, b) => format!("xor {a} {b}"),
            Req::And(a, b) => format!("and {a} {b}"),
            Req::Not(a) => format!("not {a}"),
            Req::Or(a, b) => format!("or {a} {b}"),
            Req::Eq(a, b) => format!("eq {a} {b}"),
            Req::Mux(s, a, b) => format!("mux {s} {a} {b}"),
            Req::Adder(a, b, c) => format!("adder {a} {b} {c}"),
            Req::Condswap(s, a, b) => format!("condswap {s} {a} {b}"),
        }
    }
    fn parse(s: &str) -> Option<Req> {
        let p: Vec<&str> = s.split_whitespace().collect();
        let n = |i: usize| p.get(i).and_then(|x| x.parse::<usize>().ok());
        Some(match *p.first()? {
            "xor" => Req::Xor(n(1)?, n(2)?),
            "and" => Req::And(n(1)?, n(2)?),
            "not" => Req::Not(n(1)?),
            "or" => Req::Or(n(1)?, n(2)?),
            "eq" => Req::Eq(n(1)?, n(2)?),
            "mux" => Req::Mux(n(1)?, n(2)?, n(3)?),
            "adder" => Req::Adder(n(1)?, n(2)?, n(3)?),
            "condswap" => Req::Condswap(n(1)?, n(2)?, n(3)?),
            _ => return None,
        })
    }
}

pub struct Failure {
    pub what: String,
}

/// Slots: 0 = false, 1 = true, 2..2+k = inputs, then one slot per result (adder / condswap give two).
/// Returns the first disagreement between the built circuit and the literal truth tables.
pub fn run(k: usize, cache: bool, seq: &[Req], check_c15: bool) -> Result<usize, Failure> {
    run_mode(k, cache, seq, check_c15, true)
}

pub fn run_mode(k: usize, cache: bool, seq: &[Req], check_c15: bool, check_sem: bool) -> Result<usize, Failure> {
    let n_assign = 1usize << k;
    let full: u64 = if n_assign == 64 { u64::MAX } else { (1u64 << n_assign) - 1 };
    let mut b = Builder::new(vec![k], cache);
    let mut wires: Vec<usize> = (0..2 + k).collect();
    let mut tts: Vec<u64> = vec![0, full];
    for i in 0..k {
        let mut t = 0u64;
        for a in 0..n_assign {
            if (a >> i) & 1 == 1 {
                t |= 1 << a;
            }
        }
        tts.push(t);
    }
    for r in seq {
        match *r {
            Req::Xor(x, y) => {
                wires.push(b.push_xor(wires[x], wires[y]));
                tts.push(tts[x] ^ tts[y]);
            }
            Req::And(x, y) => {
                wires.push(b.push_and(wires[x], wires[y]));
                tts.push(tts[x] & tts[y]);
            }
            Req::Not(x) => {
                wires.push(b.push_not(wires[x]));
                tts.push(!tts[x] & full);
            }
            Req::Or(x, y) => {
                wires.push(b.push_or(wires[x], wires[y]));
                tts.push(tts[x] | tts[y]);
            }
            Req::Eq(x, y) => {
                wires.push(b.push_eq(wires[x], wires[y]));
                tts.push(!(tts[x] ^ tts[y]) & full);
            }
            Req::Mux(s, x, y) => {
                wires.push(b.push_mux(wires[s], wires[x], wires[y]));
                tts.push((tts[s] & tts[x]) | (!tts[s] & tts[y] & full));
            }
            Req::Adder(x, y, c) => {
                let (s, co) = b.push_adder(wires[x], wires[y], wires[c]);
                wires.push(s);
                wires.push(co);
                tts.push(tts[x] ^ tts[y] ^ tts[c]);
                tts.push((tts[x] & tts[y]) | (tts[x] & tts[c]) | (tts[y] & tts[c]));
            }
            Req::Condswap(s, x, y) => {
                let (p, q) = b.push_condswap(wires[s], wires[x], wires[y]);
                wires.push(p);
                wires.push(q);
                tts.push((tts[s] & tts[y]) | (!tts[s] & tts[x] & full));
                tts.push((tts[s] & tts[x]) | (!tts[s] & tts[y] & full));
            }
        }
    }
    let outputs = wires.clone();
    let circuit = b.build(outputs);
    if let Err(e) = circuit.validate() {
        return Err(Failure { what: format!("built circuit fails validation: {e:?}") });
    }
    for a in 0..(if check_sem { n_assign } else { 0 }) {
        let inp: Vec<bool> = (0..k).map(|i| (a >> i) & 1 == 1).collect();
        let out = circuit.eval(&[inp]);
        if out.len() != 161 + wires.len() {
            return Err(Failure { what: format!("output length {} != 161 + {}", out.len(), wires.len()) });
        }
        for (slot, t) in tts.iter().enumerate() {
            let expected = (t >> a) & 1 == 1;
            if out[161 + slot] != expected {
                return Err(Failure {
                    what: format!(
                        "slot {slot} under input assignment {a:#b}: built circuit gives {}, literal evaluation gives {expected}",
                        out[161 + slot]
                    ),
                });
            }
        }
    }
    if check_c15 {
        if let Some(w) = c15_violation(&circuit, k, cache) {
            return Err(Failure { what: w });
        }
    }
    Ok(circuit.gates.len())
}

/// C15 on a built circuit: constants are wires k and k+1; no AND with a constant or repeated operand;
/// with de-duplication no two ANDs with the same unordered pair; every other gate reaches an output.
pub fn c15_violation(c: &Circuit, k: usize, cache: bool) -> Option<String> {
    let mut seen = std::collections::HashSet::new();
    for (i, g) in c.gates.iter().enumerate() {
        if let Gate::And(x, y) = g {
            if *x == k || *x == k + 1 || *y == k || *y == k + 1 {
                return Some(format!("gate {} is an AND with a constant operand: {g:?}", i + k));
            }
            if x == y {
                return Some(format!("gate {} is an AND of a wire with itself: {g:?}", i + k));
            }
            let key = (*x.min(y), *x.max(y));
            if cache && !seen.insert(key) {
                return Some(format!("gate {} duplicates an earlier AND gate with operands {key:?}", i + k));
            }
        }
    }
    let mut used = vec![false; k + c.gates.len()];
    let mut stack: Vec<usize> = c.output_gates.clone();
    while let Some(w) = stack.pop() {
        if used[w] {
            continue;
        }
        used[w] = true;
        if w >= k {
            match c.gates[w - k] {
                Gate::Xor(x, y) | Gate::And(x, y) => {
                    stack.push(x);
                    stack.push(y);
                }
                Gate::Not(x) => stack.push(x),
            }
        }
    }
    for i in 2..c.gates.len() {
        if !used[k + i] {
            return Some(format!("gate {} ({:?}) reaches no output", k + i, c.gates[i]));
        }
    }
    None
}

fn report(k: usize, cache: bool, seq: &[Req], f: &Failure) -> String {
    let mut s = String::new();
    s.push_str("kind: c04-requests\n");
    s.push_str(&format!("inputs: {k}\ncache_gates: {cache}\n"));
    s.push_str(&format!(
        "requests: {}\n",
        seq.iter().map(|r| r.to_string()).collect::<Vec<_>>().join("; ")
    ));
    s.push_str(&format!("observed: {}\n", f.what));
    s.push_str("note: slots are 0=false 1=true 2.. inputs, then results in request order (adder/condswap give two)\n");
    s
}

fn all_reqs(slots: usize, with_mux: bool) -> Vec<Req> {
    let mut v = vec![];
    for x in 0..slots {
        v.push(Req::Not(x));
        for y in 0..slots {
            v.push(Req::Xor(x, y));
            v.push(Req::And(x, y));
            if with_mux {
                for z in 0..slots {
                    v.push(Req::Mux(x, y, z));
                }
            }
        }
    }
    v
}

fn dfs(k: usize, depth: usize, with_mux: bool, seq: &mut Vec<Req>, slots: usize, count: &mut u64, c15: bool, sem: bool) -> Option<(bool, Failure)> {
    if seq.len() == depth {
        for cache in [true, false] {
            *count += 1;
            if let Err(f) = run_mode(k, cache, seq, c15, sem) {
                return Some((cache, f));
            }
        }
        return None;
    }
    for r in all_reqs(slots, with_mux) {
        seq.push(r);
        let r = dfs(k, depth, with_mux, seq, slots + 1, count, c15, sem);
        if r.is_some() {
            return r;
        }
        seq.pop();
    }
    None
}

fn random_req(rng: &mut Rng, slots: usize) -> Req {
    let a = rng.below(slots);
    let b = rng.below(slots);
    let c = rng.below(slots);
    match rng.below(10) {
        0 | 1 => Req::Xor(a, b),
        2 | 3 => Req::And(a, b),
        4 => Req::Not(a),
        5 => Req::Or(a, b),
        6 => Req::Eq(a, b),
        7 => Req::Mux(a, b, c),
        8 => Req::Adder(a, b, c),
        _ => Req::Condswap(a, b, c),
    }
}

pub fn search(args: &[String]) -> i32 {
    let depth = arg_u64(args, "--depth", 2) as usize;
    let random = arg_u64(args, "--random", 20000);
    let seed = arg_u64(args, "--seed", 1);
    let c15 = !args.iter().any(|a| a == "--no-c15");
    let sem = !args.iter().any(|a| a == "--only-c15");
    let mut count = 0u64;
    // exhaustive: every sequence of `depth` requests (xor/and/not/mux) over two inputs and the constants
    for d in 1..=depth {
        let mut seq = vec![];
        if let Some((cache, f)) = dfs(2, d, d <= 2, &mut seq, 4, &mut count, c15, sem) {
            write_out(args, &report(2, cache, &seq, &f));
            return 3;
        }
    }
    let exhaustive = count;
    let mut rng = Rng(seed);
    for _ in 0..random {
        let k = 1 + rng.below(4);
        let len = 1 + rng.below(14);
        let mut seq = vec![];
        let mut slots = 2 + k;
        for _ in 0..len {
            let r = random_req(&mut rng, slots);
            slots += match r {
                Req::Adder(..) | Req::Condswap(..) => 2,
                _ => 1,
            };
            seq.push(r);
        }
        for cache in [true, false] {
            count += 1;
            if let Err(f) = run_mode(k, cache, &seq, c15, sem) {
                // shrink: drop requests from the end while the failure persists
                let mut s = seq.clone();
                while s.len() > 1 && run_mode(k, cache, &s[..s.len() - 1], c15, sem).is_err() {
                    s.pop();
                }
                let f = run_mode(k, cache, &s, c15, sem).err().unwrap_or(f);
                write_out(args, &report(k, cache, &s, &f));
                return 3;
            }
        }
    }
    println!("c04 search: {exhaustive} exhaustive + {} random request sequences, no disagreement", count - exhaustive);
    0
}

pub fn replay(text: &str) -> i32 {
    let k: usize = field(text, "inputs").and_then(|v| v.parse().ok()).unwrap_or(2);
    let cache = field(text, "cache_gates").map(|v| v == "true").unwrap_or(true);
    let reqs: Vec<Req> = field(text, "requests")
        .unwrap_or_default()
        .split(';')
        .filter_map(|s| Req::parse(s.trim()))
        .collect();
    match run(k, cache, &reqs, true) {
        Ok(n) => {
            println!("replay: built circuit ({n} gates) agrees with literal evaluation on all inputs");
            0
        }
        Err(f) => {
            println!("replay: REPRODUCED: {}", f.what);
            3
        }
    }
}
