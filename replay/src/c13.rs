//! C13: for-join loops and the `join` built-in through the public API against a reference sorted-merge join.
//! Bounded differential (all size pairs up to a bound, random sorted key arrays incl. key 0, identical / disjoint
//! sets and keys repeated within one array).

use crate::util::{arg_u64, field, write_out, Rng};

fn bits(v: u64, n: u32) -> Vec<bool> {
    (0..n).map(|i| (v >> (n - 1 - i)) & 1 == 1).collect()
}

fn num(b: &[bool]) -> u64 {
    b.iter().fold(0, |n, x| (n << 1) | (*x as u64))
}

fn sorted_keys(rng: &mut Rng, n: usize, dup: bool, pool: &[u8]) -> Vec<u8> {
    // strictly ascending unless `dup`, in which case one key may be repeated
    let mut ks: Vec<u8> = vec![];
    while ks.len() < n {
        let k = pool[rng.below(pool.len())];
        if !ks.contains(&k) {
            ks.push(k);
        }
    }
    ks.sort();
    if dup && n >= 2 {
        let i = rng.below(n - 1);
        ks[i + 1] = ks[i];
        ks.sort();
    }
    ks
}

fn distinct_common(a: &[u8], b: &[u8]) -> Vec<u8> {
    let mut c: Vec<u8> = a.iter().copied().filter(|k| b.contains(k)).collect();
    c.sort();
    c.dedup();
    c
}

fn loop_program(n: usize, m: usize) -> String {
    format!(
        "pub fn main(rows1: [(u8, u16); {n}], rows2: [(u8, u16); {m}]) -> (u16, u16) {{\n    let mut count = 0u16;\n    let mut sum = 0u16;\n    for row in join_iter(rows1, rows2) {{\n        let ((_, x), (_, y)) = row;\n        count = count + 1u16;\n        sum = sum + x + y;\n    }}\n    (count, sum)\n}}"
    )
}

fn join_program(n: usize, m: usize) -> String {
    format!("pub fn main(rows1: [u8; {n}], rows2: [u8; {m}]) -> [(bool, u8); const {{ {n}usize + {m}usize - 1usize }}] {{\n    join(rows1, rows2)\n}}")
}

pub fn search(args: &[String]) -> i32 {
    let seed = arg_u64(args, "--seed", 1);
    let max = arg_u64(args, "--max", 4) as usize;
    let per = arg_u64(args, "--per", 40);
    let mut rng = Rng(seed ^ 0xC13);
    let mut n_eval = 0u64;
    let fail = |args: &[String], w: String| {
        write_out(args, &format!("kind: c13-join\nseed: {seed}\nobserved: {w}\n"));
        3
    };
    let pools: [&[u8]; 3] = [&[0, 1, 2, 3, 4, 5, 6, 7], &[0, 1, 2, 3, 200, 201, 254, 255], &[5, 9, 17, 33, 65, 129, 130, 255, 0, 64, 128, 192]];
    for n in 1..=max {
        for m in 1..=max {
            let lp = match garble_lang::compile(&loop_program(n, m)) {
                Ok(p) => p,
                Err(e) => return fail(args, format!("join loop program for sizes ({n},{m}) does not compile: {e:?}")),
            };
            let jp = match garble_lang::compile(&join_program(n, m)) {
                Ok(p) => p,
                Err(e) => return fail(args, format!("join built-in program for sizes ({n},{m}) does not compile: {e:?}")),
            };
            for it in 0..per {
                let pool = pools[rng.below(3)];
                let dup1 = it % 7 == 5;
                let dup2 = it % 7 == 6;
                let mut k1 = sorted_keys(&mut rng, n, dup1, pool);
                let mut k2 = sorted_keys(&mut rng, m, dup2, pool);
                if it % 7 == 3 && n == m {
                    k2 = k1.clone(); // identical sets
                }
                if it % 7 == 4 {
                    // disjoint sets
                    k1 = k1.iter().map(|k| k & 0xfe).collect();
                    k2 = k2.iter().map(|k| k | 1).collect();
                    k1.sort();
                    k1.dedup();
                    k2.sort();
                    k2.dedup();
                    if k1.len() != n || k2.len() != m {
                        continue;
                    }
                }
                let p1: Vec<u16> = (0..n).map(|_| (rng.next() % 1000) as u16).collect();
                let p2: Vec<u16> = (0..m).map(|_| (rng.next() % 1000) as u16).collect();
                let common = distinct_common(&k1, &k2);
                n_eval += 1;
                // ---- for-join loop
                let mut in1 = vec![];
                for i in 0..n {
                    in1.extend(bits(k1[i] as u64, 8));
                    in1.extend(bits(p1[i] as u64, 16));
                }
                let mut in2 = vec![];
                for i in 0..m {
                    in2.extend(bits(k2[i] as u64, 8));
                    in2.extend(bits(p2[i] as u64, 16));
                }
                let out = lp.circuit.eval(&[in1, in2]);
                if out[0] {
                    return fail(args, format!("join loop panics for keys {k1:?} / {k2:?}"));
                }
                let count = num(&out[161..177]);
                let sum = num(&out[177..193]);
                if count != common.len() as u64 {
                    return fail(args, format!("join loop over keys {k1:?} and {k2:?} (payloads {p1:?} / {p2:?}) ran its body {count} times; the arrays have {} common key(s) {common:?}\n{}", common.len(), loop_program(n, m)));
                }
                if !dup1 && !dup2 {
                    let exp: u64 = common.iter().map(|k| p1[k1.iter().position(|x| x == k).unwrap()] as u64 + p2[k2.iter().position(|x| x == k).unwrap()] as u64).sum();
                    if sum != exp {
                        return fail(args, format!("join loop over keys {k1:?} and {k2:?} (payloads {p1:?} / {p2:?}) accumulated {sum}, the matching pairs give {exp}\n{}", loop_program(n, m)));
                    }
                }
                // ---- join built-in
                let a: Vec<bool> = k1.iter().flat_map(|k| bits(*k as u64, 8)).collect();
                let b: Vec<bool> = k2.iter().flat_map(|k| bits(*k as u64, 8)).collect();
                let out = jp.circuit.eval(&[a, b]);
                if out[0] {
                    return fail(args, format!("join built-in panics for keys {k1:?} / {k2:?}"));
                }
                let res = &out[161..];
                if res.len() != (n + m - 1) * 9 {
                    return fail(args, format!("join built-in for sizes ({n},{m}) returns {} bits", res.len()));
                }
                let entries: Vec<(bool, u8)> = res.chunks(9).map(|c| (c[0], num(&c[1..]) as u8)).collect();
                let mut flagged: Vec<u8> = entries.iter().filter(|e| e.0).map(|e| e.1).collect();
                flagged.sort();
                if flagged != common {
                    return fail(args, format!("join({k1:?}, {k2:?}) flags the keys {flagged:?}; the common keys are {common:?} (result {entries:?})\n{}", join_program(n, m)));
                }
                if entries.iter().any(|e| !e.0 && e.1 != 0) {
                    return fail(args, format!("join({k1:?}, {k2:?}) has a non-zero unflagged entry: {entries:?}"));
                }
                if entries.windows(2).any(|w| w[0].0 && !w[1].0) {
                    return fail(args, format!("join({k1:?}, {k2:?}): flags are not sorted: {entries:?}"));
                }
            }
        }
    }
    println!("stats-json: {{\"evaluations\": {n_eval}, \"distinct_nontrivial\": {n_eval}, \"rule\": \"for-join loop and join built-in for every size pair (n, m) <= {max}, {per} key-array pairs each: sorted random keys from three pools (small, around 0/255, spread), identical sets, disjoint sets, one key repeated within the first or the second array\", \"samples\": []}}");
    println!("c13 search: {n_eval} key-array pairs over all size pairs up to ({max},{max}): loop body runs once per common key with the matching payloads, join flags exactly the common keys, zero elsewhere, flags sorted");
    0
}

pub fn replay(text: &str) -> i32 {
    let seed = field(text, "seed").unwrap_or_else(|| "1".into());
    let r = search(&["--seed".to_string(), seed]);
    if r == 3 {
        println!("replay: REPRODUCED");
    }
    r
}
