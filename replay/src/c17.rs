//! C17: ill-typed programs must be rejected.  Bounded differential (witness search + replay): a catalogue of rule
//! violations, each instantiated over a set of types.  Every case is a pair (good, bad) of programs that differ only in the
//! violation: the good one must be accepted by `check` (otherwise the template itself is broken and the case is not
//! counted), the bad one must be rejected with a type error.  A bad program that is accepted is a witness.

use crate::util::{arg, arg_u64, field, write_out, Rng};

const PRELUDE: &str = "struct S { a: u8, b: bool }\nenum E { A, B(u8), C(u16, bool) }\n";

/// (type text, is it a number type, is it signed)
fn types() -> Vec<(&'static str, bool, bool)> {
    vec![
        ("bool", false, false),
        ("u8", true, false),
        ("u16", true, false),
        ("u32", true, false),
        ("u64", true, false),
        ("usize", true, false),
        ("i8", true, true),
        ("i16", true, true),
        ("i32", true, true),
        ("i64", true, true),
        ("(u8, bool)", false, false),
        ("(u8, u8)", false, false),
        ("[u8; 2]", false, false),
        ("[bool; 2]", false, false),
        ("[u8; 3]", false, false),
        ("S", false, false),
        ("E", false, false),
    ]
}

pub struct Case {
    pub rule: &'static str,
    pub good: String,
    pub bad: String,
}

fn p(body: &str) -> String {
    format!("{PRELUDE}{body}")
}

/// cases parameterised by a pair of different types
fn pair_cases(t1: &str, t2: &str, num1: bool, num2: bool) -> Vec<Case> {
    let mut v = vec![];
    let mut c = |rule: &'static str, tmpl: &str| {
        // in the template, T1 / T2 are the two types; the good program uses T1 twice
        let good = p(&tmpl.replace("T2", t1).replace("T1", t1));
        let bad = p(&tmpl.replace("T2", t2).replace("T1", t1));
        v.push(Case { rule, good, bad });
    };
    c("operand types of == do not agree", "pub fn main(x: T1, y: T2) -> bool { x == y }");
    c("operand types of != do not agree", "pub fn main(x: T1, y: T2) -> bool { x != y }");
    c("argument type does not agree with the parameter", "fn f(a: T1) -> T1 { a }\npub fn main(x: T2, z: T1) -> T1 { let w = f(x); z }");
    c("second argument type does not agree", "fn f(k: bool, a: T1) -> T1 { a }\npub fn main(x: T2, z: T1) -> T1 { let w = f(true, x); z }");
    c("return type does not agree with the body", "pub fn main(x: T2, z: T1) -> T1 { let w = z; x }");
    c("return type of a private function does not agree", "fn f(x: T2, z: T1) -> T1 { let w = z; x }\npub fn main(x: T2, z: T1) -> T1 { f(x, z) }");
    c("if / else branch types do not agree", "pub fn main(c: bool, x: T1, y: T2) -> T1 { if c { x } else { y } }");
    c("if / else branch types do not agree (swapped)", "pub fn main(c: bool, x: T1, y: T2) -> T1 { if c { y } else { x } }");
    c("match arm types do not agree", "pub fn main(c: bool, x: T1, y: T2) -> T1 { match c { true => x, false => y } }");
    c("match arm types do not agree (later arm)", "pub fn main(c: u8, x: T1, y: T2) -> T1 { match c { 0 => x, 1 => x, _ => y } }");
    c("let annotation does not agree with the value", "pub fn main(x: T2, z: T1) -> T1 { let w: T1 = x; z }");
    c("assignment of a value of another type", "pub fn main(x: T2, z: T1) -> T1 { let mut w = z; w = x; z }");
    c("array elements of different types", "pub fn main(x: T1, y: T2) -> T1 { let a = [x, y]; x }");
    c("array element assignment of another type", "pub fn main(x: T1, y: T2) -> T1 { let mut a = [x, x]; a[0] = y; x }");
    c("struct field value of another type", "struct W { f: T1, g: bool }\npub fn main(x: T2, z: T1) -> T1 { let w = W { f: x, g: true }; z }");
    c("enum variant payload of another type", "enum V { N, P(T1) }\npub fn main(x: T2, z: T1) -> T1 { let w = V::P(x); z }");
    c("tuple field used at another type", "pub fn main(x: T2, z: T1) -> T1 { let t = (x, true); t.0 }");
    c("block value of another type", "pub fn main(x: T2, z: T1) -> T1 { let w = z; { let q = true; x } }");
    c("for loop body assigns another type", "pub fn main(x: T2, z: T1) -> T1 { let mut w = z; for i in [1u8, 2u8] { w = x; } w }");
    c("match scrutinee binding used at another type", "pub fn main(x: T2, z: T1) -> T1 { match x { v => v } }");
    if num1 && num2 {
        for (op, rule) in [("+", "operand types of + do not agree"), ("-", "operand types of - do not agree"), ("*", "operand types of * do not agree"),
                           ("/", "operand types of / do not agree"), ("%", "operand types of % do not agree"), ("&", "operand types of & do not agree"),
                           ("|", "operand types of | do not agree"), ("^", "operand types of ^ do not agree")] {
            let tm = format!("pub fn main(x: T1, y: T2) -> T1 {{ x {op} y }}");
            let good = p(&tm.replace("T2", t1).replace("T1", t1));
            let bad = p(&tm.replace("T2", t2).replace("T1", t1));
            v.push(Case { rule, good, bad });
        }
        for (op, rule) in [("<", "operand types of < do not agree"), (">", "operand types of > do not agree"), ("<=", "operand types of <= do not agree"), (">=", "operand types of >= do not agree")] {
            let tm = format!("pub fn main(x: T1, y: T2) -> bool {{ x {op} y }}");
            let good = p(&tm.replace("T2", t1).replace("T1", t1));
            let bad = p(&tm.replace("T2", t2).replace("T1", t1));
            v.push(Case { rule, good, bad });
        }
    }
    v
}

/// cases parameterised by one type T (T != bool where stated)
fn single_cases(t: &str, is_bool: bool, is_num: bool) -> Vec<Case> {
    let mut v = vec![];
    let mut c = |rule: &'static str, good: &str, bad: &str| {
        v.push(Case { rule, good: p(&good.replace("TT", t)), bad: p(&bad.replace("TT", t)) });
    };
    if !is_bool {
        c("non-Boolean if condition", "pub fn main(c: bool, x: TT) -> TT { if c { x } else { x } }", "pub fn main(c: TT, x: TT) -> TT { if c { x } else { x } }");
        c("non-Boolean operand of &&", "pub fn main(c: bool, d: bool, x: TT) -> bool { c && d }", "pub fn main(c: TT, d: bool, x: TT) -> bool { c && d }");
        c("non-Boolean operand of ||", "pub fn main(c: bool, d: bool, x: TT) -> bool { d || c }", "pub fn main(c: TT, d: bool, x: TT) -> bool { d || c }");
    }
    if !is_num && !is_bool {
        c("unary - on a non-number", "pub fn main(c: i8, x: TT) -> i8 { -c }", "pub fn main(c: TT, x: i8) -> TT { -c }");
        c("unary ! on a non-number, non-Boolean", "pub fn main(c: u8, x: TT) -> u8 { !c }", "pub fn main(c: TT, x: u8) -> TT { !c }");
        c("arithmetic on a non-number", "pub fn main(c: u8, x: TT) -> u8 { c + c }", "pub fn main(c: TT, x: u8) -> TT { c + c }");
        c("comparison of non-numbers", "pub fn main(c: u8, x: TT) -> bool { c < c }", "pub fn main(c: TT, x: u8) -> bool { c < c }");
    }
    if is_bool {
        c("arithmetic on bool", "pub fn main(c: u8) -> u8 { c + c }", "pub fn main(c: bool) -> bool { c + c }");
        c("unary - on bool", "pub fn main(c: i8) -> i8 { -c }", "pub fn main(c: bool) -> bool { -c }");
    }
    if is_num {
        let (max, over): (&str, &str) = match t {
            "u8" => ("255", "256"), "u16" => ("65535", "65536"), "u32" | "usize" => ("4294967295", "4294967296"), "u64" => ("18446744073709551615", ""),
            "i8" => ("127", "128"), "i16" => ("32767", "32768"), "i32" => ("2147483647", "2147483648"), _ => ("9223372036854775807", "9223372036854775808"),
        };
        if !over.is_empty() {
            c("integer literal that does not fit the annotated type", &format!("pub fn main(x: TT) -> TT {{ let w: TT = {max}; x }}"), &format!("pub fn main(x: TT) -> TT {{ let w: TT = {over}; x }}"));
            c("integer literal operand that does not fit the other operand's type", &format!("pub fn main(x: TT) -> bool {{ x == {max} }}"), &format!("pub fn main(x: TT) -> bool {{ x == {over} }}"));
            c("integer literal argument that does not fit the parameter type", &format!("fn f(a: TT) -> TT {{ a }}\npub fn main(x: TT) -> TT {{ f({max}) }}"), &format!("fn f(a: TT) -> TT {{ a }}\npub fn main(x: TT) -> TT {{ f({over}) }}"));
            c("integer literal result that does not fit the return type", &format!("pub fn main(x: TT) -> TT {{ {max} }}"), &format!("pub fn main(x: TT) -> TT {{ {over} }}"));
        }
    }
    if is_num && t != "usize" {
        c("array index that is not usize", "pub fn main(a: [u8; 4], i: usize, x: TT) -> u8 { a[i] }", "pub fn main(a: [u8; 4], i: TT, x: TT) -> u8 { a[i] }");
        c("shift amount that is not u8", "pub fn main(a: u32, i: u8) -> u32 { a << i }", if t == "u8" { "pub fn main(a: u32, i: bool) -> u32 { a << i }" } else { "pub fn main(a: u32, i: TT) -> u32 { a << i }" });
    }
    // unknown names, scoping, mutability, arity, refutable patterns: T is the type of the value moved around
    c("unknown identifier", "pub fn main(x: TT) -> TT { x }", "pub fn main(x: TT) -> TT { y }");
    c("identifier used outside its block", "pub fn main(x: TT) -> TT { let r = { let y = x; y }; r }", "pub fn main(x: TT) -> TT { let r = { let y = x; y }; y }");
    c("identifier of an if branch used after it", "pub fn main(c: bool, x: TT) -> TT { let r = if c { let y = x; y } else { x }; r }", "pub fn main(c: bool, x: TT) -> TT { let r = if c { let y = x; y } else { x }; y }");
    c("loop variable used after the loop", "pub fn main(x: TT) -> TT { let mut r = x; for y in [x, x] { r = y; } r }", "pub fn main(x: TT) -> TT { let mut r = x; for y in [x, x] { r = y; } y }");
    c("match binding used after the match", "pub fn main(x: TT) -> TT { let r = match x { y => y }; r }", "pub fn main(x: TT) -> TT { let r = match x { y => y }; y }");
    c("callee's parameter used in the caller", "fn f(a: TT) -> TT { a }\npub fn main(x: TT) -> TT { f(x) }", "fn f(a: TT) -> TT { a }\npub fn main(x: TT) -> TT { let r = f(x); a }");
    c("caller's variable used in the callee", "fn f(a: TT) -> TT { a }\npub fn main(x: TT) -> TT { f(x) }", "fn f(a: TT) -> TT { x }\npub fn main(x: TT) -> TT { f(x) }");
    c("unknown function", "fn f(a: TT) -> TT { a }\npub fn main(x: TT) -> TT { f(x) }", "fn f(a: TT) -> TT { a }\npub fn main(x: TT) -> TT { let r = f(x); g(x) }");
    c("assignment to a binding not declared mut", "pub fn main(x: TT, z: TT) -> TT { let mut y = x; y = z; y }", "pub fn main(x: TT, z: TT) -> TT { let y = x; y = z; y }");
    c("assignment to a parameter not declared mut", "pub fn main(mut x: TT, z: TT) -> TT { x = z; x }", "pub fn main(x: TT, z: TT) -> TT { x = z; x }");
    c("assignment to a private function's parameter not declared mut", "fn f(mut a: TT, z: TT) -> TT { a = z; a }\npub fn main(x: TT, z: TT) -> TT { f(x, z) }", "fn f(a: TT, z: TT) -> TT { a = z; a }\npub fn main(x: TT, z: TT) -> TT { f(x, z) }");
    c("assignment in a loop to a binding not declared mut", "pub fn main(x: TT, z: TT) -> TT { let mut y = x; for i in [1u8, 2u8] { y = z; } y }", "pub fn main(x: TT, z: TT) -> TT { let y = x; for i in [1u8, 2u8] { y = z; } y }");
    c("assignment in a branch to a binding not declared mut", "pub fn main(c: bool, x: TT, z: TT) -> TT { let mut y = x; if c { y = z; } else { y = x; } y }", "pub fn main(c: bool, x: TT, z: TT) -> TT { let y = x; if c { y = z; } else { y = x; } y }");
    c("element assignment to an array not declared mut", "pub fn main(x: TT, z: TT) -> TT { let mut a = [x, x]; a[1] = z; a[1] }", "pub fn main(x: TT, z: TT) -> TT { let a = [x, x]; a[1] = z; a[1] }");
    c("assignment to a shadowing binding that is not mut", "pub fn main(x: TT, z: TT) -> TT { let mut y = x; let mut y = y; y = z; y }", "pub fn main(x: TT, z: TT) -> TT { let mut y = x; let y = y; y = z; y }");
    c("assignment to a loop variable", "pub fn main(x: TT, z: TT) -> TT { let mut r = x; for y in [x, x] { r = y; } r }", "pub fn main(x: TT, z: TT) -> TT { let mut r = x; for y in [x, x] { y = z; r = y; } r }");
    c("too many arguments", "fn f(a: TT) -> TT { a }\npub fn main(x: TT) -> TT { f(x) }", "fn f(a: TT) -> TT { a }\npub fn main(x: TT) -> TT { f(x, x) }");
    c("too many arguments (extra one of another type)", "fn f(a: TT) -> TT { a }\npub fn main(x: TT) -> TT { f(x) }", "fn f(a: TT) -> TT { a }\npub fn main(x: TT) -> TT { f(x, true, 1u8) }");
    c("too few arguments", "fn f(a: TT, b: TT) -> TT { a }\npub fn main(x: TT) -> TT { f(x, x) }", "fn f(a: TT, b: TT) -> TT { a }\npub fn main(x: TT) -> TT { f(x) }");
    c("no arguments for a function with parameters", "fn f(a: TT) -> TT { a }\npub fn main(x: TT) -> TT { f(x) }", "fn f(a: TT) -> TT { a }\npub fn main(x: TT) -> TT { let r = x; f() }");
    c("too many arguments in a nested call", "fn f(a: TT) -> TT { a }\npub fn main(c: bool, x: TT) -> TT { if c { f(f(x)) } else { x } }", "fn f(a: TT) -> TT { a }\npub fn main(c: bool, x: TT) -> TT { if c { f(f(x, x)) } else { x } }");
    c("tuple pattern with too many fields", "pub fn main(x: TT) -> TT { let (a, b) = (x, true); a }", "pub fn main(x: TT) -> TT { let (a, b, c) = (x, true); a }");
    c("tuple pattern with too few fields", "pub fn main(x: TT) -> TT { let (a, b) = (x, true); a }", "pub fn main(x: TT) -> TT { let (a,) = (x, true); a }");
    c("tuple access out of bounds", "pub fn main(x: TT) -> TT { let t = (x, true); t.0 }", "pub fn main(x: TT) -> TT { let t = (x, true); t.2 }");
    c("struct literal with a missing field", "struct W { f: TT, g: bool }\npub fn main(x: TT) -> TT { let w = W { f: x, g: true }; w.f }", "struct W { f: TT, g: bool }\npub fn main(x: TT) -> TT { let w = W { f: x }; w.f }");
    c("struct literal with an extra field", "struct W { f: TT, g: bool }\npub fn main(x: TT) -> TT { let w = W { f: x, g: true }; w.f }", "struct W { f: TT, g: bool }\npub fn main(x: TT) -> TT { let w = W { f: x, g: true, h: true }; w.f }");
    c("struct literal naming a field twice (the other one missing)", "struct W { f: TT, g: bool }\npub fn main(x: TT) -> TT { let w = W { f: x, g: true }; w.f }", "struct W { f: TT, g: bool }\npub fn main(x: TT) -> TT { let w = W { f: x, f: x }; w.f }");
    c("struct literal naming a field twice", "struct W { f: TT, g: bool }\npub fn main(x: TT) -> TT { let w = W { f: x, g: true }; w.f }", "struct W { f: TT, g: bool }\npub fn main(x: TT) -> TT { let w = W { f: x, g: true, f: x }; w.f }");
    c("struct pattern naming a field twice", "struct W { f: TT, g: bool }\npub fn main(x: TT) -> TT { let w = W { f: x, g: true }; let W { f, g } = w; f }", "struct W { f: TT, g: bool }\npub fn main(x: TT) -> TT { let w = W { f: x, g: true }; let W { f, f } = w; f }");
    c("match arms: an unsuffixed number first, then a bool", "pub fn main(x: bool) -> u8 { match x { true => 1, false => 2 } }", "pub fn main(x: bool) -> bool { match x { true => 1, false => true } }");
    c("match arms: a bool first, then an unsuffixed number", "pub fn main(x: bool) -> bool { match x { true => true, false => false } }", "pub fn main(x: bool) -> bool { match x { true => true, false => 1 } }");
    c("match arms in a let: an unsuffixed number and a bool variable", "pub fn main(x: bool) -> bool { let y = match x { true => false, false => x }; y }", "pub fn main(x: bool) -> bool { let y = match x { true => 0, false => x }; y }");
    c("three match arms: the first an unsuffixed number, the last a bool", "pub fn main(x: u8) -> u8 { match x { 0 => 1, 1 => 2, _ => 3 } }", "pub fn main(x: u8) -> u8 { match x { 0 => 1, 1 => 2, _ => true } }");
    c("if branches: an unsuffixed number and a bool", "pub fn main(x: bool) -> u8 { if x { 1 } else { 2 } }", "pub fn main(x: bool) -> bool { if x { 1 } else { true } }");
    c("array literal: an unsuffixed number and a bool", "pub fn main(x: bool) -> [bool; 2] { [x, true] }", "pub fn main(x: bool) -> [bool; 2] { [1, true] }");
    c("match arm in a let: an unsuffixed number that is not a value of the type of the other arm", "pub fn main(x: bool, z: u8) -> u8 { let y = match x { true => 30, false => z }; y }", "pub fn main(x: bool, z: u8) -> u8 { let y = match x { true => 300, false => z }; y }");
    c("match arm in a let: a negative number for an unsigned arm type", "pub fn main(x: bool, z: i8) -> i8 { let y = match x { true => -3, false => z }; y }", "pub fn main(x: bool, z: u8) -> u8 { let y = match x { true => -3, false => z }; y }");
    c("argument: a let-bound array of negative unsuffixed numbers for an unsigned array parameter", "fn sum(a: [i8; 3]) -> i8 { a[0] + a[1] + a[2] }\npub fn main(x: i8) -> i8 { let a = [-1, -2, -3]; sum(a) + x }", "fn sum(a: [u8; 3]) -> u8 { a[0] + a[1] + a[2] }\npub fn main(x: u8) -> u8 { let a = [-1, -2, -3]; sum(a) + x }");
    c("argument: a let-bound tuple with a negative unsuffixed number for an unsigned component", "fn pick(t: (bool, u16, i16)) -> i16 { t.2 }\npub fn main(x: bool) -> i16 { let t = (x, 7, -7); pick(t) }", "fn pick(t: (bool, u16, u16)) -> u16 { t.2 }\npub fn main(x: bool) -> u16 { let t = (x, 7, -7); pick(t) }");
    c("return value: a let-bound array of negative unsuffixed numbers for an unsigned array type", "pub fn main(x: bool) -> [i16; 2] { let a = [-1, -2]; a }", "pub fn main(x: bool) -> [u16; 2] { let a = [-1, -2]; a }");
    c("unknown struct field access", "struct W { f: TT, g: bool }\npub fn main(x: TT) -> TT { let w = W { f: x, g: true }; w.f }", "struct W { f: TT, g: bool }\npub fn main(x: TT) -> TT { let w = W { f: x, g: true }; w.h }");
    c("unknown struct", "struct W { f: TT, g: bool }\npub fn main(x: TT) -> TT { let w = W { f: x, g: true }; w.f }", "struct W { f: TT, g: bool }\npub fn main(x: TT) -> TT { let w = X { f: x, g: true }; x }");
    c("struct pattern with an unknown field", "struct W { f: TT, g: bool }\npub fn main(x: TT) -> TT { let w = W { f: x, g: true }; let W { f, g } = w; f }", "struct W { f: TT, g: bool }\npub fn main(x: TT) -> TT { let w = W { f: x, g: true }; let W { f, h } = w; f }");
    c("struct pattern with a missing field", "struct W { f: TT, g: bool }\npub fn main(x: TT) -> TT { let w = W { f: x, g: true }; let W { f, g } = w; f }", "struct W { f: TT, g: bool }\npub fn main(x: TT) -> TT { let w = W { f: x, g: true }; let W { f } = w; f }");
    c("unknown enum variant", "enum V { N, P(TT) }\npub fn main(x: TT) -> TT { let w = V::P(x); x }", "enum V { N, P(TT) }\npub fn main(x: TT) -> TT { let w = V::Q(x); x }");
    c("unknown enum", "enum V { N, P(TT) }\npub fn main(x: TT) -> TT { let w = V::P(x); x }", "enum V { N, P(TT) }\npub fn main(x: TT) -> TT { let w = U::P(x); x }");
    c("enum variant with too many fields", "enum V { N, P(TT) }\npub fn main(x: TT) -> TT { let w = V::P(x); x }", "enum V { N, P(TT) }\npub fn main(x: TT) -> TT { let w = V::P(x, x); x }");
    c("enum variant with too few fields", "enum V { N, P(TT, bool) }\npub fn main(x: TT) -> TT { let w = V::P(x, true); x }", "enum V { N, P(TT, bool) }\npub fn main(x: TT) -> TT { let w = V::P(x); x }");
    c("unit variant used with fields", "enum V { N, P(TT) }\npub fn main(x: TT) -> TT { let w = V::N; x }", "enum V { N, P(TT) }\npub fn main(x: TT) -> TT { let w = V::N(x); x }");
    c("tuple variant used without fields", "enum V { N, P(TT) }\npub fn main(x: TT) -> TT { let w = V::P(x); x }", "enum V { N, P(TT) }\npub fn main(x: TT) -> TT { let w = V::P; x }");
    c("enum pattern with the wrong number of fields", "enum V { N, P(TT) }\npub fn main(x: TT) -> TT { match V::P(x) { V::P(a) => a, V::N => x } }", "enum V { N, P(TT) }\npub fn main(x: TT) -> TT { match V::P(x) { V::P(a, b) => a, V::N => x } }");
    c("refutable enum pattern in let", "enum V { N, P(TT) }\npub fn main(x: TT) -> TT { let w = V::P(x); match w { V::P(a) => a, V::N => x } }", "enum V { N, P(TT) }\npub fn main(x: TT) -> TT { let w = V::P(x); let V::P(a) = w; a }");
    c("refutable literal pattern in let", "pub fn main(x: TT, k: u8) -> TT { let (a, b) = (x, k); a }", "pub fn main(x: TT, k: u8) -> TT { let (a, 1) = (x, k); a }");
    c("refutable range pattern in let", "pub fn main(x: TT, k: u8) -> TT { let (a, b) = (x, k); a }", "pub fn main(x: TT, k: u8) -> TT { let (a, 0..=9) = (x, k); a }");
    c("refutable Boolean pattern in let", "pub fn main(x: TT, k: bool) -> TT { let (a, b) = (x, k); a }", "pub fn main(x: TT, k: bool) -> TT { let (a, true) = (x, k); a }");
    c("refutable pattern in for", "pub fn main(x: TT, k: u8) -> TT { let mut r = x; for (a, b) in [(x, k), (x, k)] { r = a; } r }", "pub fn main(x: TT, k: u8) -> TT { let mut r = x; for (a, 1) in [(x, k), (x, k)] { r = a; } r }");
    c("refutable enum pattern in for", "enum V { N, P(TT) }\npub fn main(x: TT) -> TT { let mut r = x; for w in [V::P(x), V::N] { r = match w { V::P(a) => a, V::N => x }; } r }", "enum V { N, P(TT) }\npub fn main(x: TT) -> TT { let mut r = x; for V::P(a) in [V::P(x), V::N] { r = a; } r }");
    c("direct recursion", "fn f(a: TT) -> TT { a }\npub fn main(x: TT) -> TT { f(x) }", "fn f(a: TT) -> TT { f(a) }\npub fn main(x: TT) -> TT { f(x) }");
    c("direct recursion in a branch", "fn f(c: bool, a: TT) -> TT { if c { a } else { a } }\npub fn main(x: TT) -> TT { f(true, x) }", "fn f(c: bool, a: TT) -> TT { if c { a } else { f(true, a) } }\npub fn main(x: TT) -> TT { f(true, x) }");
    c("mutual recursion", "fn f(a: TT) -> TT { g(a) }\nfn g(a: TT) -> TT { a }\npub fn main(x: TT) -> TT { f(x) }", "fn f(a: TT) -> TT { g(a) }\nfn g(a: TT) -> TT { f(a) }\npub fn main(x: TT) -> TT { f(x) }");
    c("recursion through three functions", "fn f(a: TT) -> TT { g(a) }\nfn g(a: TT) -> TT { h(a) }\nfn h(a: TT) -> TT { a }\npub fn main(x: TT) -> TT { f(x) }", "fn f(a: TT) -> TT { g(a) }\nfn g(a: TT) -> TT { h(a) }\nfn h(a: TT) -> TT { f(a) }\npub fn main(x: TT) -> TT { f(x) }");
    c("recursive public function", "pub fn main(x: TT) -> TT { x }", "pub fn main(x: TT) -> TT { main(x) }");
    c("unused private function", "fn f(a: TT) -> TT { a }\npub fn main(x: TT) -> TT { f(x) }", "fn f(a: TT) -> TT { a }\npub fn main(x: TT) -> TT { x }");
    c("private function used only by an unused private function", "fn f(a: TT) -> TT { g(a) }\nfn g(a: TT) -> TT { a }\npub fn main(x: TT) -> TT { f(x) }", "fn f(a: TT) -> TT { g(a) }\nfn g(a: TT) -> TT { a }\npub fn main(x: TT) -> TT { x }");
    c("public function without parameters", "pub fn main(x: TT) -> bool { true }", "pub fn main() -> bool { true }");
    c("second public function without parameters", "pub fn main(x: TT) -> bool { true }\npub fn other(x: TT) -> bool { false }", "pub fn main(x: TT) -> bool { true }\npub fn other() -> bool { false }");
    c("duplicate parameter names", "pub fn main(x: TT, y: TT) -> TT { x }", "pub fn main(x: TT, x: TT) -> TT { x }");
    c("function used as a value", "fn f(a: TT) -> TT { a }\npub fn main(x: TT) -> TT { f(x) }", "fn f(a: TT) -> TT { a }\npub fn main(x: TT) -> TT { let g = f; f(x) }");
    c("array size mismatch", "pub fn main(x: TT) -> [TT; 2] { [x, x] }", "pub fn main(x: TT) -> [TT; 2] { [x, x, x] }");
    c("array repeat size mismatch", "pub fn main(x: TT) -> [TT; 2] { [x; 2] }", "pub fn main(x: TT) -> [TT; 2] { [x; 3] }");
    c("for loop over a non-array", "pub fn main(x: TT) -> TT { let mut r = x; for y in [x, x] { r = y; } r }", "pub fn main(x: TT, k: (u8, u8)) -> TT { let mut r = x; for y in k { r = x; } r }");
    c("indexing a non-array", "pub fn main(x: TT, a: [u8; 2]) -> u8 { a[0] }", "pub fn main(x: TT, a: (u8, u8)) -> u8 { a[0] }");
    c("field access on a non-struct", "pub fn main(x: TT, s: S) -> u8 { s.a }", "pub fn main(x: TT, s: (u8, bool)) -> u8 { s.a }");
    c("tuple access on a non-tuple", "pub fn main(x: TT, s: (u8, bool)) -> u8 { s.0 }", "pub fn main(x: TT, s: S) -> u8 { s.0 }");
    c("match on values of a pattern of another kind", "pub fn main(x: TT, k: u8) -> u8 { match k { 0 => 1, _ => 2 } }", "pub fn main(x: TT, k: u8) -> u8 { match k { true => 1, _ => 2 } }");
    c("tuple pattern on a non-tuple scrutinee", "pub fn main(x: TT, k: (u8, u8)) -> u8 { match k { (a, b) => a } }", "pub fn main(x: TT, k: u8) -> u8 { match k { (a, b) => a } }");
    c("enum pattern on a scrutinee of another enum", "enum V { N, P(u8) }\npub fn main(x: TT, k: V) -> u8 { match k { V::N => 1, V::P(a) => a } }", "enum V { N, P(u8) }\npub fn main(x: TT, k: E) -> u8 { match k { V::N => 1, V::P(a) => a } }");
    c("statement value used as the function result", "pub fn main(x: TT) -> TT { let y = x; y }", "pub fn main(x: TT) -> TT { let y = x; }");
    c("cast of a non-number", "pub fn main(x: TT, k: u8) -> u16 { k as u16 }", "pub fn main(x: TT, k: (u8, u8)) -> u16 { k as u16 }");
    v
}

pub fn cases() -> Vec<Case> {
    let ts = types();
    let mut v = vec![];
    for (t1, n1, _) in &ts {
        for (t2, n2, _) in &ts {
            if t1 != t2 {
                v.extend(pair_cases(t1, t2, *n1, *n2));
            }
        }
    }
    for (t, n, _) in &ts {
        v.extend(single_cases(t, *t == "bool", *n));
    }
    v
}

fn is_type_error(e: &garble_lang::Error) -> bool {
    let s = format!("{e:?}");
    s.contains("TypeError")
}

/// Ok(true): compared; Ok(false): template not applicable (good program rejected / bad program is not a type error); Err: witness
pub fn run_case(c: &Case) -> Result<bool, String> {
    let good = std::panic::catch_unwind(|| garble_lang::check(&c.good).is_ok());
    match good {
        Ok(true) => {}
        Ok(false) => return Ok(false),
        Err(_) => return Err(format!("the type checker panics on a well-typed program:\n{}", c.good)),
    }
    let bad = std::panic::catch_unwind(|| garble_lang::check(&c.bad).map(|_| ()).map_err(|e| is_type_error(&e)));
    match bad {
        Ok(Ok(())) => Err(format!("rule violated: {} -- the program is accepted by the type checker:\n{}", c.rule, c.bad)),
        Ok(Err(true)) => Ok(true),
        Ok(Err(false)) => Ok(false),
        Err(_) => Err(format!("rule violated: {} -- the type checker panics instead of reporting an error:\n{}", c.rule, c.bad)),
    }
}

pub fn search(args: &[String]) -> i32 {
    let seed = arg_u64(args, "--seed", 1);
    let limit = arg_u64(args, "--max", 0); // 0 = all
    let only = arg(args, "--rule");
    let mut all = cases();
    // deterministic shuffle so that a limited run samples every rule
    let mut rng = Rng(seed ^ 0xC17);
    for i in (1..all.len()).rev() {
        let j = rng.below(i + 1);
        all.swap(i, j);
    }
    if limit > 0 && (limit as usize) < all.len() {
        // keep at least one case per rule, then fill up
        let mut seen = std::collections::HashSet::new();
        let mut first: Vec<Case> = vec![];
        let mut rest: Vec<Case> = vec![];
        for c in all {
            if seen.insert(c.rule) { first.push(c) } else { rest.push(c) }
        }
        let more = (limit as usize).saturating_sub(first.len());
        first.extend(rest.into_iter().take(more));
        all = first;
    }
    let (mut n, mut compared, mut skipped) = (0u64, 0u64, 0u64);
    let mut rules = std::collections::BTreeMap::new();
    let mut skipped_rules = std::collections::BTreeSet::new();
    let mut samples = vec![];
    for c in &all {
        if let Some(r) = &only {
            if !c.rule.contains(r.as_str()) {
                continue;
            }
        }
        n += 1;
        match run_case(c) {
            Ok(true) => {
                compared += 1;
                *rules.entry(c.rule).or_insert(0u64) += 1;
                if samples.len() < 3 {
                    samples.push(c.bad.replace('\n', " ").replace('"', "'"));
                }
            }
            Ok(false) => {
                skipped += 1;
                skipped_rules.insert(c.rule);
                if args.iter().any(|a| a == "--show-skipped") {
                    println!("skipped [{}]: {}", c.rule, c.bad.replace('\n', " "));
                }
            }
            Err(w) => {
                write_out(args, &format!("kind: c17-illtyped\nseed: {seed}\nrule: {}\nobserved: {w}\n", c.rule));
                println!("{w}");
                return 3;
            }
        }
    }
    let never: Vec<&&str> = skipped_rules.iter().filter(|r| !rules.contains_key(**r)).collect();
    println!(
        "stats-json: {{\"evaluations\": {n}, \"distinct_nontrivial\": {compared}, \"rule\": \"catalogue of {} static-rule violations x 17 types (pairs of different types for the agreement rules); each case is a (well-typed, ill-typed) pair differing only in the violation; non-trivial = the well-typed twin is accepted and the ill-typed one is rejected with a type error\", \"samples\": [{}]}}",
        rules.len(),
        samples.iter().map(|s| format!("\"{s}\"")).collect::<Vec<_>>().join(", ")
    );
    println!("c17 search: {n} (well-typed, ill-typed) pairs, {compared} compared over {} rules, {skipped} not applicable (twin rejected or parse error); rules never exercised: {never:?}", rules.len());
    0
}

pub fn replay(text: &str) -> i32 {
    let seed = field(text, "seed").unwrap_or_else(|| "1".into());
    let mut a = vec!["--seed".to_string(), seed];
    if let Some(r) = field(text, "rule") {
        a.push("--rule".into());
        a.push(r);
    }
    let r = search(&a);
    if r == 3 {
        println!("replay: REPRODUCED");
    }
    r
}
