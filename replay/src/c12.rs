//! C12: constants supplied from outside act as literal substitution (min / max / + / - evaluated in the constant's
//! type); missing or mistyped constants are errors, never panics.  Bounded differential through the public API.

use crate::util::{arg_u64, field, write_out, Rng};
use garble_lang::literal::Literal;
use garble_lang::token::{SignedNumType, UnsignedNumType};
use std::collections::HashMap;
use std::panic::{catch_unwind, AssertUnwindSafe};

#[derive(Clone, Debug)]
enum CE {
    Ext(usize),      // external value PARTY_i::V
    Lit(u64),        // literal with the suffix of the constant's type (non-negative)
    Ref(Box<CE>),    // the constant K0 defined before K by this expression (same type)
    Max(Vec<CE>),
    Min(Vec<CE>),
    Add(Box<CE>, Box<CE>),
    Sub(Box<CE>, Box<CE>),
}

#[derive(Clone, Copy, Debug)]
struct Ty {
    name: &'static str,
    bits: u32,
    signed: bool,
}

const TYPES: [Ty; 9] = [
    Ty { name: "u8", bits: 8, signed: false },
    Ty { name: "u16", bits: 16, signed: false },
    Ty { name: "u32", bits: 32, signed: false },
    Ty { name: "u64", bits: 64, signed: false },
    Ty { name: "usize", bits: 32, signed: false },
    Ty { name: "i8", bits: 8, signed: true },
    Ty { name: "i16", bits: 16, signed: true },
    Ty { name: "i32", bits: 32, signed: true },
    Ty { name: "i64", bits: 64, signed: true },
];

fn show(e: &CE, t: Ty) -> String {
    match e {
        CE::Ext(i) => format!("PARTY_{i}::V"),
        CE::Lit(n) => format!("{n}{}", t.name),
        CE::Ref(_) => "K0".to_string(),
        CE::Max(a) => format!("max({})", a.iter().map(|x| show(x, t)).collect::<Vec<_>>().join(", ")),
        CE::Min(a) => format!("min({})", a.iter().map(|x| show(x, t)).collect::<Vec<_>>().join(", ")),
        CE::Add(a, b) => format!("{} + {}", show(a, t), show(b, t)),
        CE::Sub(a, b) => format!("{} - {}", show(a, t), show(b, t)),
    }
}

/// exact value; None if some intermediate result leaves the range of the type (only allowed for 64-bit types,
/// where the evaluation type and the constant's type coincide and wrapping is the documented behaviour)
fn eval(e: &CE, vals: &[i128], lo: i128, hi: i128, wrap64: bool) -> Option<i128> {
    let fit = |v: i128| -> Option<i128> {
        if v >= lo && v <= hi {
            Some(v)
        } else if wrap64 {
            let m = 1i128 << 64;
            let mut r = v.rem_euclid(m);
            if lo < 0 && r >= (m >> 1) {
                r -= m;
            }
            Some(r)
        } else {
            None
        }
    };
    match e {
        CE::Ext(i) => Some(vals[*i]),
        CE::Lit(n) => Some(*n as i128),
        CE::Ref(d) => eval(d, vals, lo, hi, wrap64),
        CE::Max(a) => a.iter().map(|x| eval(x, vals, lo, hi, wrap64)).collect::<Option<Vec<_>>>().map(|v| v.into_iter().max().unwrap()),
        CE::Min(a) => a.iter().map(|x| eval(x, vals, lo, hi, wrap64)).collect::<Option<Vec<_>>>().map(|v| v.into_iter().min().unwrap()),
        CE::Add(a, b) => fit(eval(a, vals, lo, hi, wrap64)? + eval(b, vals, lo, hi, wrap64)?),
        CE::Sub(a, b) => fit(eval(a, vals, lo, hi, wrap64)? - eval(b, vals, lo, hi, wrap64)?),
    }
}

fn rand_expr(rng: &mut Rng, depth: usize, t: Ty) -> CE {
    if depth == 0 || rng.below(3) == 0 {
        // (signed constant expressions used to panic on a literal with a signed suffix: defect fixed in /repo, see known_findings.json)
        if rng.below(4) == 0 { CE::Lit(rng.below(7) as u64) } else { CE::Ext(rng.below(3)) }
    } else {
        match rng.below(4) {
            0 => CE::Max((0..1 + rng.below(3)).map(|_| rand_expr(rng, depth - 1, t)).collect()),
            1 => CE::Min((0..1 + rng.below(3)).map(|_| rand_expr(rng, depth - 1, t)).collect()),
            // `a op b op c` is written without parentheses: keep the right operand atomic (leaf or min / max call)
            2 => CE::Add(Box::new(rand_expr(rng, depth - 1, t)), Box::new(rand_atom(rng, depth - 1, t))),
            _ => CE::Sub(Box::new(rand_expr(rng, depth - 1, t)), Box::new(rand_atom(rng, depth - 1, t))),
        }
    }
}

fn rand_atom(rng: &mut Rng, depth: usize, t: Ty) -> CE {
    loop {
        let e = rand_expr(rng, depth, t);
        if !matches!(e, CE::Add(..) | CE::Sub(..)) {
            return e;
        }
    }
}

fn lit(t: Ty, v: i128) -> Literal {
    if t.signed {
        Literal::NumSigned(v as i64, match t.name { "i8" => SignedNumType::I8, "i16" => SignedNumType::I16, "i32" => SignedNumType::I32, _ => SignedNumType::I64 })
    } else {
        Literal::NumUnsigned(v as u64, match t.name { "u8" => UnsignedNumType::U8, "u16" => UnsignedNumType::U16, "u32" => UnsignedNumType::U32, "u64" => UnsignedNumType::U64, _ => UnsignedNumType::Usize })
    }
}

fn consts(t: Ty, vals: &[i128]) -> HashMap<String, HashMap<String, Literal>> {
    let mut m = HashMap::new();
    for (i, v) in vals.iter().enumerate() {
        let mut inner = HashMap::new();
        inner.insert("V".to_string(), lit(t, *v));
        m.insert(format!("PARTY_{i}"), inner);
    }
    m
}

fn decode(t: Ty, bits: &[bool]) -> i128 {
    let mut u: i128 = 0;
    for b in bits {
        u = (u << 1) | (*b as i128);
    }
    if t.signed && bits[0] {
        u -= 1i128 << t.bits;
    }
    u
}

fn run_case(t: Ty, e: &CE, vals: &[i128]) -> Result<bool, String> {
    let (lo, hi) = if t.signed { (-(1i128 << (t.bits - 1)), (1i128 << (t.bits - 1)) - 1) } else { (0, (1i128 << t.bits) - 1) };
    let Some(expected) = eval(e, vals, lo, hi, t.bits == 64) else { return Ok(false) };
    fn k0(e: &CE) -> Option<&CE> {
        match e {
            CE::Ref(d) => Some(d),
            CE::Max(a) | CE::Min(a) => a.iter().find_map(k0),
            CE::Add(a, b) | CE::Sub(a, b) => k0(a).or_else(|| k0(b)),
            _ => None,
        }
    }
    let def0 = k0(e).map(|d| format!("const K0: {} = {};\n", t.name, show(d, t))).unwrap_or_default();
    let src = format!("{def0}const K: {0} = {1};\npub fn main(x: {0}) -> {0} {{ x ^ K }}", t.name, show(e, t));
    let r = catch_unwind(AssertUnwindSafe(|| garble_lang::compile_with_constants(&src, consts(t, vals))));
    let prg = match r {
        Err(_) => return Err(format!("compile_with_constants panics for\n{src}\nwith PARTY_i::V = {vals:?}")),
        Ok(Err(e)) => return Err(format!("well-formed constants are rejected: {e:?}\n{src}\nwith PARTY_i::V = {vals:?}")),
        Ok(Ok(p)) => p,
    };
    let out = prg.circuit.eval(&[vec![false; t.bits as usize]]);
    if out[0] {
        return Err(format!("circuit panics for\n{src}"));
    }
    let got = decode(t, &out[161..]);
    if got != expected {
        return Err(format!("constant evaluates to {got}, substitution semantics give {expected}:\n{src}\nwith PARTY_i::V = {vals:?}"));
    }
    Ok(true)
}

fn hostile(known_f1: bool, f1_hits: &mut u64) -> Result<u64, String> {
    let src = "const A: u16 = PARTY_0::A;\nconst B: u16 = PARTY_1::B;\npub fn main(x: u16) -> u16 { x + A + B }";
    let mk = |entries: &[(&str, &str, Literal)]| {
        let mut m: HashMap<String, HashMap<String, Literal>> = HashMap::new();
        for (p, n, l) in entries {
            m.entry(p.to_string()).or_default().insert(n.to_string(), l.clone());
        }
        m
    };
    let u16l = |n| Literal::NumUnsigned(n, UnsignedNumType::U16);
    let cases: Vec<(&str, HashMap<String, HashMap<String, Literal>>, Vec<&str>)> = vec![
        ("one constant missing", mk(&[("PARTY_0", "A", u16l(1))]), vec!["B"]),
        ("both constants missing", mk(&[]), vec!["A", "B"]),
        ("wrong type", mk(&[("PARTY_0", "A", Literal::NumUnsigned(1, UnsignedNumType::U8)), ("PARTY_1", "B", u16l(2))]), vec!["A"]),
        ("bool instead of number", mk(&[("PARTY_0", "A", Literal::True), ("PARTY_1", "B", Literal::False)]), vec!["A", "B"]),
        ("constant under the wrong party", mk(&[("PARTY_1", "A", u16l(1)), ("PARTY_0", "B", u16l(2))]), vec!["A", "B"]),
    ];
    let mut n = 0;
    for (what, c, names) in cases {
        n += 1;
        match catch_unwind(AssertUnwindSafe(|| garble_lang::compile_with_constants(src, c))) {
            Err(_) => return Err(format!("{what}: compile_with_constants panics")),
            Ok(Ok(_)) => return Err(format!("{what}: compilation succeeds")),
            Ok(Err(e)) => {
                let msg = format!("{e:?}");
                for name in names {
                    // (the name as the error prints it, in quotes: a bare `A` also occurs in `PARTY_1`)
                    if !msg.contains(&format!("\"{name}\"")) {
                        // known finding C12-F1: a mistyped constant is reported as InvalidLiteralType(literal, type), which
                        // carries the offending literal and the expected type but not the constant's name
                        if known_f1 && msg.contains("InvalidLiteralType") && !msg.contains("MissingConstant") {
                            *f1_hits += 1;
                            continue;
                        }
                        return Err(format!("{what}: the error does not name constant {name}: {msg}"));
                    }
                }
            }
        }
    }
    // constants that determine array sizes (usize, directly external or through a constant expression) supplied with a literal of
    // another type: an error, never a panic (the direct form panicked in compile_with_constants before fix 4d1e61e)
    let usizel = |n| Literal::NumUnsigned(n, UnsignedNumType::Usize);
    let size_srcs = [
        "const N: usize = PARTY_0::N;\npub fn main(x: [u8; N]) -> u8 { x[0] }",
        "const N: usize = PARTY_0::N;\nconst M: usize = PARTY_1::N;\npub fn main(x: [u8; N], y: [u8; M]) -> u8 { x[0] ^ y[0] }",
        "const N: usize = max(PARTY_0::N, PARTY_1::N);\npub fn main(x: [u8; N]) -> u8 { x[0] }",
        "const N: usize = PARTY_0::N + 1usize;\npub fn main(x: u8) -> u8 { let a = [x; N]; a[0] }",
    ];
    let wrong: Vec<(&str, Literal)> = vec![
        ("u8 for usize", Literal::NumUnsigned(2, UnsignedNumType::U8)),
        ("u64 for usize", Literal::NumUnsigned(2, UnsignedNumType::U64)),
        ("bool for usize", Literal::True),
        ("i32 for usize", Literal::NumSigned(-1, garble_lang::token::SignedNumType::I32)),
        ("unsuffixed for usize", Literal::NumUnsigned(2, UnsignedNumType::Unspecified)),
    ];
    for src2 in size_srcs {
        for (what, l) in &wrong {
            for bad_party in ["PARTY_0", "PARTY_1"] {
                if bad_party == "PARTY_1" && !src2.contains("PARTY_1") { continue; }
                n += 1;
                let good = if bad_party == "PARTY_0" { "PARTY_1" } else { "PARTY_0" };
                let c = mk(&[(bad_party, "N", l.clone()), (good, "N", usizel(2))]);
                match catch_unwind(AssertUnwindSafe(|| garble_lang::compile_with_constants(src2, c))) {
                    Err(_) => return Err(format!("{what} ({bad_party}::N in `{}`): compile_with_constants panics", src2.replace('\n', " "))),
                    Ok(Ok(_)) => {
                        // an unsuffixed literal may be accepted as usize; everything else must be refused
                        if *what != "unsuffixed for usize" { return Err(format!("{what} ({bad_party}::N in `{}`): compilation succeeds", src2.replace('\n', " "))); }
                    }
                    Ok(Err(e)) => {
                        let msg = format!("{e:?}");
                        if !msg.contains("\"N\"") && !msg.contains("::N") {
                            if known_f1 && msg.contains("InvalidLiteralType") && !msg.contains("MissingConstant") { *f1_hits += 1; } else {
                                return Err(format!("{what} ({bad_party}::N): the error does not name the constant: {msg}"));
                            }
                        }
                    }
                }
            }
        }
        // missing altogether
        n += 1;
        match catch_unwind(AssertUnwindSafe(|| garble_lang::compile_with_constants(src2, mk(&[])))) {
            Err(_) => return Err(format!("missing size constant in `{}`: compile_with_constants panics", src2.replace('\n', " "))),
            Ok(Ok(_)) => return Err(format!("missing size constant in `{}`: compilation succeeds", src2.replace('\n', " "))),
            Ok(Err(e)) => { let msg = format!("{e:?}"); if !msg.contains("MissingConstant") { return Err(format!("missing size constant: unexpected error {msg}")); } }
        }
    }
    // an extra, undeclared constant is harmless
    n += 1;
    match catch_unwind(AssertUnwindSafe(|| garble_lang::compile_with_constants(src, mk(&[("PARTY_0", "A", u16l(1)), ("PARTY_1", "B", u16l(2)), ("PARTY_1", "Z", u16l(3))])))) {
        Ok(Ok(_)) => {}
        other => return Err(format!("an extra constant breaks compilation: {:?}", other.map(|r| r.map(|_| ()).map_err(|e| format!("{e:?}"))))),
    }
    Ok(n)
}

/// array sizes, loop trip counts and the number of parties follow the constants: programs whose sizes are constant
/// expressions over two external usize values, compared with the same program with the sizes written as literals
fn sizes(rng: &mut Rng, rounds: u64) -> Result<u64, String> {
    let usize_ty = TYPES.iter().copied().find(|t| t.name == "usize").unwrap();
    let mut n = 0;
    let exprs: [(&str, fn(u64, u64) -> u64); 6] = [
        ("PARTY_0::V", |a, _| a),
        ("max(PARTY_0::V, PARTY_1::V)", |a, b| a.max(b)),
        ("min(PARTY_0::V, PARTY_1::V)", |a, b| a.min(b)),
        ("PARTY_0::V + PARTY_1::V", |a, b| a + b),
        ("max(PARTY_0::V, PARTY_1::V) - min(PARTY_0::V, PARTY_1::V) + 1usize", |a, b| a.max(b) - a.min(b) + 1),
        ("min(PARTY_0::V + 2usize, PARTY_1::V)", |a, b| (a + 2).min(b)),
    ];
    for round in 0..rounds {
        let (a, b) = (1 + rng.below(5) as u64, 1 + rng.below(5) as u64);
        let (text, f) = exprs[(round as usize) % exprs.len()];
        let size = f(a, b);
        if size == 0 || size > 9 { continue; }
        let cs = consts(usize_ty, &[a as i128, b as i128]);
        // (1) one party per array element, array size and loop trip count = N
        // every other round the external values are reached through alias constants (`const A0: usize = PARTY_0::V;`): a constant
        // defined in terms of other constants, the first of which is a plain alias of an external value
        let (defs, text) = if (round / exprs.len() as u64) % 2 == 1 {
            ("const A0: usize = PARTY_0::V;\nconst B0: usize = PARTY_1::V;\n", text.replace("PARTY_0::V", "A0").replace("PARTY_1::V", "B0"))
        } else {
            ("", text.to_string())
        };
        let body = "pub fn main(x: [u8; N]) -> u16 {\n    let mut s = 0u16;\n    for e in x { s = s + (e as u16) }\n    let a = [3u16; N];\n    for e in a { s = s + e }\n    let b: [u8; N] = [7; N];\n    s = s + (b[0] as u16);\n    s + (N as u16)\n}";
        let src = format!("{defs}const N: usize = {text};\n{body}");
        let lit_src = body.replace("; N]", &format!("; {size}]")).replace("(N as u16)", &format!("({size}usize as u16)"));
        let with_consts = catch_unwind(AssertUnwindSafe(|| garble_lang::compile_with_constants(&src, cs.clone())));
        let prg = match with_consts {
            Err(_) => return Err(format!("compile_with_constants panics for\n{src}\nwith PARTY_0::V = {a}, PARTY_1::V = {b}")),
            Ok(Err(e)) => return Err(format!("well-formed size constants are rejected: {e:?}\n{src}\nwith PARTY_0::V = {a}, PARTY_1::V = {b}")),
            Ok(Ok(p)) => p,
        };
        let lit_prg = garble_lang::compile(&lit_src).map_err(|e| format!("the literal-substituted program does not compile: {e:?}\n{lit_src}"))?;
        let shape: Vec<usize> = prg.circuit.input_lengths().collect();
        if shape != vec![8usize; size as usize] {
            return Err(format!("the number of parties / their sizes do not follow the constant: input_gates = {shape:?}, expected {size} x 8 bits\n{src}\nwith PARTY_0::V = {a}, PARTY_1::V = {b}"));
        }
        if lit_prg.circuit.input_lengths().collect::<Vec<usize>>() != shape {
            return Err(format!("shape differs from the literal-substituted program: {:?} vs {shape:?}\n{src}", lit_prg.circuit.input_lengths().collect::<Vec<usize>>()));
        }
        for trial in 0..4u64 {
            let inputs: Vec<Vec<bool>> = (0..size).map(|k| { let v = ((k * 37 + trial * 11 + a) % 200) as u8; (0..8).map(|i| (v >> (7 - i)) & 1 == 1).collect() }).collect();
            let expected: u64 = (0..size).map(|k| (k * 37 + trial * 11 + a) % 200).sum::<u64>() + 3 * size + 7 + size;
            let out = prg.circuit.eval(&inputs);
            let out2 = lit_prg.circuit.eval(&inputs);
            if out[0] != out2[0] || out[161..] != out2[161..] {
                let d = |o: &Vec<bool>| format!("panic={} value={}", o[0], decode(Ty { name: "u16", bits: 16, signed: false }, &o[161..]));
                return Err(format!("outputs differ from the literal-substituted program: with constants {} / with literals {} (expected {expected})\n{src}\n--- literal program:\n{lit_src}\nwith PARTY_0::V = {a}, PARTY_1::V = {b}", d(&out), d(&out2)));
            }
            let got = decode(Ty { name: "u16", bits: 16, signed: false }, &out[161..]) as u64;
            if out[0] || got != expected {
                return Err(format!("loop trip counts do not follow the constant: result {got} (panic {}), expected {expected}\n{src}\nwith PARTY_0::V = {a}, PARTY_1::V = {b}", out[0]));
            }
        }
        n += 1;
    }
    Ok(n)
}

pub fn search(args: &[String]) -> i32 {
    let seed = arg_u64(args, "--seed", 1);
    let random = arg_u64(args, "--random", 600);
    std::panic::set_hook(Box::new(|_| {}));
    let mut rng = Rng(seed ^ 0xC12);
    let mut n = 0u64;
    let mut compared = 0u64;
    for k in 0..random {
        let t = TYPES[(k as usize) % TYPES.len()];
        let mut e = rand_expr(&mut rng, 3, t);
        if rng.below(2) == 0 {
            // some external values are replaced by a constant K0 that is defined before K (by a literal, an external value or an expression)
            let dd = rng.below(3);
            let d = rand_expr(&mut rng, dd, t);
            fn with_ref(e: &mut CE, d: &CE, rng: &mut Rng) {
                match e {
                    CE::Ext(_) => if rng.below(2) == 0 { *e = CE::Ref(Box::new(d.clone())); },
                    CE::Max(a) | CE::Min(a) => a.iter_mut().for_each(|x| with_ref(x, d, rng)),
                    CE::Add(a, b) | CE::Sub(a, b) => { with_ref(a, d, rng); with_ref(b, d, rng); }
                    _ => {}
                }
            }
            with_ref(&mut e, &d, &mut rng);
        }
        let (lo, hi) = if t.signed { (-(1i128 << (t.bits - 1)), (1i128 << (t.bits - 1)) - 1) } else { (0i128, (1i128 << t.bits) - 1) };
        let vals: Vec<i128> = (0..3)
            .map(|_| match rng.below(6) {
                0 => lo,
                1 => hi,
                2 => 0i128.clamp(lo, hi),
                3 => (-1i128).clamp(lo, hi),
                _ => {
                    let r = (rng.next() % 41) as i128 - if t.signed { 20 } else { 0 };
                    r.clamp(lo, hi)
                }
            })
            .collect();
        n += 1;
        match run_case(t, &e, &vals) {
            Ok(c) => compared += c as u64,
            Err(w) => {
                write_out(args, &format!("kind: c12-consts\nseed: {seed}\nobserved: {w}\n"));
                return 3;
            }
        }
    }
    let size_cases = match sizes(&mut rng, 12 + random / 50) {
        Ok(k) => k,
        Err(w) => {
            write_out(args, &format!("kind: c12-consts\nseed: {seed}\nobserved: {w}\n"));
            return 3;
        }
    };
    let known_f1 = crate::util::arg(args, "--known").map(|k| k.split(',').any(|x| x == "C12-F1")).unwrap_or(false);
    let mut f1_hits = 0u64;
    match hostile(known_f1, &mut f1_hits) {
        Ok(h) => {
            if f1_hits > 0 {
                println!("known-finding: C12-F1 cases={f1_hits} example=PARTY_0::A given as 1u8 for a u16 constant");
            }
            println!("stats-json: {{\"evaluations\": {n}, \"distinct_nontrivial\": {compared}, \"rule\": \"random const expressions (depth <= 3: external values, literals, min, max, +, -) over 9 integer types with boundary and small random external values; non-trivial = no intermediate result leaves the constant's type (except 64-bit, where wrapping is compared)\", \"samples\": []}}");
            println!("c12 search: {n} constant expressions ({compared} compared with substitution semantics), {size_cases} programs whose array sizes / loop trip counts / party counts are constant expressions (compared with literal substitution) and {h} missing / mistyped / extra constant cases agree");
            0
        }
        Err(w) => {
            write_out(args, &format!("kind: c12-consts\nseed: {seed}\nobserved: {w}\n"));
            3
        }
    }
}

pub fn replay(text: &str) -> i32 {
    let seed = field(text, "seed").unwrap_or_else(|| "1".into());
    let r = search(&["--seed".to_string(), seed]);
    if r == 3 {
        println!("replay: REPRODUCED");
    }
    r
}
