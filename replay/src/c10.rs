//! C10: the SSA -> register conversion on the real code: for valid SSA circuits (exhaustive small scope + random,
//! incl. repeated operands, outputs that are inputs or repeated, unused inputs and gates) and compiled programs,
//! the converted circuit validates, computes the same outputs on every input, reads only written registers,
//! needs no more registers than wires and reports the same number of AND operations.

#[path = "../../kani/src/decode.rs"]
#[allow(dead_code)]
mod decode;

use crate::util::{arg_u64, write_out, Rng};
use decode::*;
use garble_lang::circuit::{Circuit as SsaCircuit, Gate};
use garble_lang::register_circuit::{Circuit as RegCircuit, Input, Op};

fn all_inputs(shape: &[usize]) -> Vec<Vec<Vec<bool>>> {
    let total: usize = shape.iter().sum();
    let mut res = vec![];
    for a in 0..(1usize << total) {
        let mut k = 0;
        let mut v = vec![];
        for &bits in shape {
            let mut p = vec![];
            for _ in 0..bits {
                p.push((a >> k) & 1 == 1);
                k += 1;
            }
            v.push(p);
        }
        res.push(v);
    }
    res
}

pub fn check(c: &SsaCircuit) -> Result<(), String> {
    if c.validate().is_err() {
        return Ok(()); // only valid SSA circuits are in scope
    }
    let r: RegCircuit = match std::panic::catch_unwind(std::panic::AssertUnwindSafe(|| RegCircuit::from(c))) {
        Ok(r) => r,
        Err(_) => return Err(format!("conversion of the valid SSA circuit {c:?} panics")),
    };
    if let Err(e) = r.validate() {
        return Err(format!("conversion of {c:?} does not validate: {e:?}"));
    }
    if r.max_reg_count <= 8 {
        if let Err(w) = valid_spec_reg(&r) {
            return Err(format!("conversion of {c:?} gives {r:?}: {w}"));
        }
    }
    if r.input_regs != c.input_gates {
        return Err(format!("conversion of {c:?} changes the party sizes: {:?}", r.input_regs));
    }
    // inputs are loaded in order: instruction i (i < total inputs) loads bit i of the flattened inputs into register i
    let mut k = 0;
    for (p, &bits) in c.input_gates.iter().enumerate() {
        for i in 0..bits {
            match r.insts.get(k).map(|x| (x.out.0, x.op)) {
                Some((o, Op::Input(Input { party, input }))) if o as usize == k && party as usize == p && input as usize == i => {}
                other => return Err(format!("conversion of {c:?}: instruction {k} is {other:?}, expected the load of party {p} bit {i}")),
            }
            k += 1;
        }
    }
    if r.max_reg_count > c.wires_len() {
        return Err(format!("conversion of {c:?} declares {} registers for {} wires", r.max_reg_count, c.wires_len()));
    }
    if r.and_ops != c.and_gates() {
        return Err(format!("conversion of {c:?} reports {} AND operations, circuit has {}", r.and_ops, c.and_gates()));
    }
    if r.output_regs.len() != c.output_gates.len() {
        return Err(format!("conversion of {c:?} has {} outputs", r.output_regs.len()));
    }
    let total: usize = c.input_gates.iter().sum();
    if total <= 10 {
        for inputs in all_inputs(&c.input_gates) {
            let a = c.eval(&inputs);
            let b = r.eval(&inputs);
            if a != b {
                return Err(format!("conversion of {c:?} to {r:?}: on {inputs:?} SSA gives {a:?}, register form {b:?}"));
            }
            match ref_eval_reg(&r, &inputs) {
                Ok(e) if e == b => {}
                other => return Err(format!("register form {r:?} of {c:?} on {inputs:?}: reference interpreter says {other:?}")),
            }
        }
    }
    Ok(())
}

const PROGRAMS: [&str; 6] = [
    "pub fn main(x: u8, y: u8) -> u8 { x + y }",
    "pub fn main(x: i8, y: i8) -> bool { x * y > 3i8 }",
    "pub fn main(x: [u8; 2], i: usize) -> u8 { x[i] }",
    "pub fn main(x: u8, y: bool) -> (u8, bool, u8) { if y { (x, y, x) } else { (0u8, y, x / 3u8) } }",
    "pub fn main(a: bool, b: bool) -> bool { a }",
    "enum E { A, B(u8) }\npub fn main(x: u8) -> u8 { let e = if x > 3u8 { E::B(x) } else { E::A }; match e { E::A => 1u8, E::B(y) => y } }",
];

pub fn search(args: &[String]) -> i32 {
    let seed = arg_u64(args, "--seed", 1);
    let random = arg_u64(args, "--random", 100000);
    let depth = arg_u64(args, "--depth", 2) as usize;
    std::panic::set_hook(Box::new(|_| {}));
    let mut n = 0u64;
    let fail = |args: &[String], w: String| {
        write_out(args, &format!("kind: c10-conversion\nobserved: {w}\n"));
        3
    };
    // exhaustive: every valid SSA circuit with <= depth gates over the shapes below, every single / double output
    for shape in [vec![1usize], vec![2], vec![1, 1], vec![0, 2], vec![2, 1]] {
        let inputs: usize = shape.iter().sum();
        for g in 0..=depth {
            let mut stack: Vec<Vec<Gate>> = vec![vec![]];
            while let Some(gs) = stack.pop() {
                if gs.len() < g {
                    let lim = inputs + gs.len();
                    for a in 0..lim {
                        let mut y = gs.clone();
                        y.push(Gate::Not(a));
                        stack.push(y);
                        for b in 0..lim {
                            for mk in [Gate::Xor as fn(usize, usize) -> Gate, Gate::And] {
                                let mut y = gs.clone();
                                y.push(mk(a, b));
                                stack.push(y);
                            }
                        }
                    }
                    continue;
                }
                let w = inputs + g;
                for o1 in 0..w {
                    for o2 in std::iter::once(None).chain((0..w).map(Some)) {
                        let mut outs = vec![o1];
                        if let Some(o2) = o2 {
                            outs.push(o2);
                        }
                        let c = SsaCircuit { input_gates: shape.clone(), gates: gs.clone(), output_gates: outs };
                        n += 1;
                        if let Err(w) = check(&c) {
                            return fail(args, w);
                        }
                    }
                }
            }
        }
    }
    let exhaustive = n;
    let mut rng = Rng(seed ^ 0xC10);
    for _ in 0..random {
        let parties = 1 + rng.below(3);
        let shape: Vec<usize> = (0..parties).map(|_| rng.below(4)).collect();
        let inputs: usize = shape.iter().sum();
        if inputs == 0 {
            continue;
        }
        let g = rng.below(14);
        let mut gates = vec![];
        for k in 0..g {
            let lim = inputs + k;
            let a = rng.below(lim);
            // bias towards recent wires and repeated operands
            let b = if rng.below(4) == 0 { a } else { lim - 1 - rng.below(lim.min(3)) };
            gates.push(match rng.below(3) {
                0 => Gate::Xor(a, b),
                1 => Gate::And(a, b),
                _ => Gate::Not(a),
            });
        }
        let no = 1 + rng.below(4);
        let outs = (0..no).map(|_| rng.below(inputs + g)).collect();
        let c = SsaCircuit { input_gates: shape, gates, output_gates: outs };
        n += 1;
        if let Err(w) = check(&c) {
            return fail(args, w);
        }
    }
    for src in PROGRAMS {
        for dedup in [true, false] {
            let opts = garble_lang::CompileOptions { optimize_duplicate_gates: dedup, ..Default::default() };
            match garble_lang::compile_with_options(src, opts) {
                Ok(p) => {
                    n += 1;
                    if let Err(w) = check(p.circuit.unwrap_ssa_ref()) {
                        return fail(args, format!("program `{src}`: {w}"));
                    }
                }
                Err(e) => return fail(args, format!("program `{src}` does not compile: {e:?}")),
            }
        }
    }
    println!("c10 search: {exhaustive} valid SSA circuits exhaustively (<= {depth} gates) + {} random / compiled circuits: conversion validates, agrees on every input, reads only written registers, registers <= wires, AND count equal", n - exhaustive);
    0
}
