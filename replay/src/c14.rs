//! C14: no shared mutable state - copies are independent, scopes end, control flow merges variables correctly.
//! Bounded differential (witness search + replay): random programs over a fixed set of variables (scalars, arrays, tuples, a struct, an
//! array of tuples) with let / let mut (shadowing), assignment and op-assignment through constant and input-dependent accessors, whole-value
//! copies, nested blocks, if / else (conditions with side effects, short-circuit operators), match, for loops and calls of helper functions
//! whose parameters carry the names of the caller's variables.  Every program is run by the reference interpreter below (lexical scopes,
//! values copied on assignment and on call) and by the compiled circuit; all variables of `main` are compared at the end.
//! No operation of the generated programs can fail (indices are reduced modulo the length, additions are on 4-bit operands).

use crate::util::{arg, arg_u64, field, write_out, Rng};
use std::collections::HashMap;

const U8S: [&str; 4] = ["x", "y", "z", "K"];
const ARRS: [&str; 2] = ["arr", "brr"];
const TUPS: [&str; 2] = ["t", "u"];
const K_VALUE: u8 = 5;

#[derive(Clone, Debug, PartialEq)]
enum V {
    U(u8),
    L(Vec<V>), // array, tuple or struct: a list of components
}

#[derive(Clone, Debug)]
enum Ix {
    C(usize),
    D(Box<E>), // (e % len) as usize
}

#[derive(Clone, Debug)]
enum E {
    Lit(u8),
    Var(&'static str),
    Idx(&'static str, Ix),
    TupF(&'static str, usize),
    Fld(usize),
    QF(Ix, usize),
    /// m[i][j] of the nested array m: [[u8; 2]; 3]
    M(Ix, Ix),
    Bin(&'static str, Box<E>, Box<E>),
    AddLow(Box<E>, Box<E>),
    IfE(Box<C>, Box<E>, Box<E>),
    Call(usize, Box<E>, Box<E>, Agg, Agg),
}

/// an array / tuple valued expression: a variable (copied) or a constructor
#[derive(Clone, Debug)]
enum Agg {
    Name(&'static str),
    Lit(Vec<E>),
}

#[derive(Clone, Debug)]
enum C {
    Flag,
    Cmp(&'static str, E, E),
    And(Box<C>, Box<C>),
    Or(Box<C>, Box<C>),
    Not(Box<C>),
    /// `(if true { stmts; cond } else { false })`: a condition with side effects
    Block(Vec<S>, Box<C>),
}

#[derive(Clone, Debug)]
enum Place {
    Var(&'static str),
    Idx(&'static str, Ix),
    TupF(&'static str, usize),
    Fld(usize),
    QF(Ix, usize),
    M(Ix, Ix),
}

#[derive(Clone, Debug)]
enum S {
    LetU8(&'static str, bool, E),
    LetAgg(&'static str, bool, Agg),
    LetP(bool, E, E, E),
    LetQ(bool, Vec<E>),
    Assign(Place, E),
    OpAssign(Place, &'static str, E),
    AssignAgg(&'static str, Agg),
    /// let rN = { stmts; e }; acc = acc ^ rN;
    Block(usize, Vec<S>, E),
    If(usize, C, Vec<S>, E, Vec<S>, E),
    Match(usize, E, Vec<(Vec<S>, E)>),
    ForArr(&'static str, Vec<E>, Vec<S>),
    ForRange(&'static str, u8, u8, Vec<S>),
    /// x = [k * (] (if c { stmts; e1 } else { stmts; e2 }) [& 15u8)];  -- a right-hand side with side effects (scalar variable on the left)
    AssignFx(&'static str, Option<u8>, C, Vec<S>, E, Vec<S>, E),
    /// place = (if c { stmts; e1 } else { stmts; e2 });  -- an element / field on the left (only in the directed programs of known finding C14-F1)
    AssignPlaceFx(Place, C, Vec<S>, E, Vec<S>, E),
}

#[derive(Clone, Debug)]
struct Func {
    body: Vec<S>,
    ret: E,
}

#[derive(Clone, Debug)]
pub struct Program {
    helpers: Vec<Func>,
    main: Vec<S>,
}

// ------------------------------------------------------------------------------------------------ source text
fn ix_src(ix: &Ix, len: usize) -> String {
    match ix {
        Ix::C(i) => format!("{i}"),
        Ix::D(e) => format!("(({}) % {len}u8) as usize", e_src(e)),
    }
}

fn agg_src(a: &Agg, tuple: bool) -> String {
    match a {
        Agg::Name(n) => n.to_string(),
        Agg::Lit(es) => {
            let inner = es.iter().map(e_src).collect::<Vec<_>>().join(", ");
            if tuple { format!("({inner})") } else { format!("[{inner}]") }
        }
    }
}

fn is_tuple_name(n: &str) -> bool {
    TUPS.contains(&n)
}

fn e_src(e: &E) -> String {
    match e {
        E::Lit(n) => format!("{n}u8"),
        E::Var(n) => n.to_string(),
        E::Idx(a, ix) => format!("{a}[{}]", ix_src(ix, 3)),
        E::TupF(t, i) => format!("{t}.{i}"),
        E::Fld(i) => format!("p.{}", ["a", "b", "c"][*i]),
        E::QF(ix, i) => format!("q[{}].{i}", ix_src(ix, 3)),
        E::M(i, j) => format!("m[{}][{}]", ix_src(i, 3), ix_src(j, 2)),
        E::Bin(op, a, b) => format!("({} {op} {})", e_src(a), e_src(b)),
        E::AddLow(a, b) => format!("(({} & 15u8) + ({} & 15u8))", e_src(a), e_src(b)),
        E::IfE(c, a, b) => format!("(if {} {{ {} }} else {{ {} }})", c_src(c), e_src(a), e_src(b)),
        E::Call(f, h, x, arr, t) => format!("f{f}({}, {}, {}, {})", e_src(h), e_src(x), agg_src(arr, false), agg_src(t, true)),
    }
}

fn c_src(c: &C) -> String {
    match c {
        C::Flag => "c".to_string(),
        C::Cmp(op, a, b) => format!("({} {op} {})", e_src(a), e_src(b)),
        C::And(a, b) => format!("({} && {})", c_src(a), c_src(b)),
        C::Or(a, b) => format!("({} || {})", c_src(a), c_src(b)),
        C::Not(a) => format!("(!{})", c_src(a)),
        C::Block(ss, c) => {
            let mut out = vec![];
            for s in ss {
                s_src(s, 0, "acc", &mut out);
            }
            format!("(if true {{ {} {} }} else {{ false }})", out.join(" "), c_src(c))
        }
    }
}

fn place_src(p: &Place) -> String {
    match p {
        Place::Var(n) => n.to_string(),
        Place::Idx(a, ix) => format!("{a}[{}]", ix_src(ix, 3)),
        Place::TupF(t, i) => format!("{t}.{i}"),
        Place::Fld(i) => format!("p.{}", ["a", "b", "c"][*i]),
        Place::QF(ix, i) => format!("q[{}].{i}", ix_src(ix, 3)),
        Place::M(i, j) => format!("m[{}][{}]", ix_src(i, 3), ix_src(j, 2)),
    }
}

fn block_src(ss: &[S], tail: &E, ind: usize, acc: &str, out: &mut Vec<String>) {
    for s in ss {
        s_src(s, ind + 1, acc, out);
    }
    out.push(format!("{}{}", "    ".repeat(ind + 1), e_src(tail)));
}

fn s_src(s: &S, ind: usize, acc: &str, out: &mut Vec<String>) {
    let pad = "    ".repeat(ind);
    let m = |b: &bool| if *b { "mut " } else { "" };
    match s {
        S::LetU8(n, mu, e) => out.push(format!("{pad}let {}{n} = {};", m(mu), e_src(e))),
        S::LetAgg(n, mu, a) => out.push(format!("{pad}let {}{n} = {};", m(mu), agg_src(a, is_tuple_name(n)))),
        S::LetP(mu, a, b, c) => out.push(format!("{pad}let {}p = P {{ a: {}, b: {}, c: {} }};", m(mu), e_src(a), e_src(b), e_src(c))),
        S::LetQ(mu, es) => out.push(format!("{pad}let {}q = [({}, {}), ({}, {}), ({}, {})];", m(mu), e_src(&es[0]), e_src(&es[1]), e_src(&es[2]), e_src(&es[3]), e_src(&es[4]), e_src(&es[5]))),
        S::Assign(p, e) => out.push(format!("{pad}{} = {};", place_src(p), e_src(e))),
        S::OpAssign(p, op, e) => out.push(format!("{pad}{} {op}= {};", place_src(p), e_src(e))),
        S::AssignAgg(n, a) => out.push(format!("{pad}{n} = {};", agg_src(a, is_tuple_name(n)))),
        S::Block(k, ss, e) => {
            out.push(format!("{pad}let r{k} = {{"));
            block_src(ss, e, ind, acc, out);
            out.push(format!("{pad}}};"));
            out.push(format!("{pad}{acc} = {acc} ^ r{k};"));
        }
        S::If(k, c, ts, te, fs, fe) => {
            out.push(format!("{pad}let r{k} = if {} {{", c_src(c)));
            block_src(ts, te, ind, acc, out);
            out.push(format!("{pad}}} else {{"));
            block_src(fs, fe, ind, acc, out);
            out.push(format!("{pad}}};"));
            out.push(format!("{pad}{acc} = {acc} ^ r{k};"));
        }
        S::Match(k, e, arms) => {
            out.push(format!("{pad}let r{k} = match {} & 3u8 {{", e_src(e)));
            for (i, (ss, tail)) in arms.iter().enumerate() {
                // overlapping range patterns (arm i covers i-1 ..= i+1), `_` last: several arms match the same value, the first one decides
                let pat = if i + 1 == arms.len() { "_".to_string() } else { format!("{}u8..={}u8", i.saturating_sub(1), i + 1) };
                out.push(format!("{pad}    {pat} => {{"));
                block_src(ss, tail, ind + 1, acc, out);
                out.push(format!("{pad}    }}"));
            }
            out.push(format!("{pad}}};"));
            out.push(format!("{pad}{acc} = {acc} ^ r{k};"));
        }
        S::ForArr(v, es, body) => {
            out.push(format!("{pad}for {v} in [{}] {{", es.iter().map(e_src).collect::<Vec<_>>().join(", ")));
            for s in body {
                s_src(s, ind + 1, acc, out);
            }
            out.push(format!("{pad}}}"));
        }
        S::AssignFx(x, k, c, ts, te, fs, fe) => {
            let (pre, post) = match k { Some(k) => (format!("{k}u8 * ("), " & 15u8)".to_string()), None => (String::new(), String::new()) };
            out.push(format!("{pad}{x} = {pre}(if {} {{", c_src(c)));
            block_src(ts, te, ind, acc, out);
            out.push(format!("{pad}}} else {{"));
            block_src(fs, fe, ind, acc, out);
            out.push(format!("{pad}}}){post};"));
        }
        S::AssignPlaceFx(pl, c, ts, te, fs, fe) => {
            out.push(format!("{pad}{} = (if {} {{", place_src(pl), c_src(c)));
            block_src(ts, te, ind, acc, out);
            out.push(format!("{pad}}} else {{"));
            block_src(fs, fe, ind, acc, out);
            out.push(format!("{pad}}});"));
        }
        S::ForRange(v, lo, hi, body) => {
            out.push(format!("{pad}for {v} in {lo}u8..{hi}u8 {{"));
            for s in body {
                s_src(s, ind + 1, acc, out);
            }
            out.push(format!("{pad}}}"));
        }
    }
}

const OUTPUTS: usize = 29;

pub fn program_src(p: &Program) -> String {
    let mut out = vec![format!("const K: u8 = {K_VALUE}u8;"), "struct P { a: u8, b: u8, c: u8 }".to_string()];
    for (i, f) in p.helpers.iter().enumerate() {
        out.push(format!("fn f{i}(mut acc: u8, mut x: u8, mut arr: [u8; 3], mut t: (u8, u8)) -> u8 {{"));
        for s in &f.body {
            s_src(s, 1, "acc", &mut out);
        }
        out.push(format!("    {}", e_src(&f.ret)));
        out.push("}".to_string());
    }
    out.push(format!("pub fn main(a0: u8, a1: u8, c: bool) -> ({}) {{", vec!["u8"; OUTPUTS].join(", ")));
    for l in [
        "let mut acc = 0u8;", "let mut x = a0;", "let mut y = a1;", "let mut z = a0 ^ a1;", "let mut arr = [a0, a1, 7u8];", "let mut brr = [a1, 9u8, a0];",
        "let mut t = (a1, a0);", "let mut u = (3u8, a1);", "let mut p = P { a: a0, b: 3u8, c: a1 };", "let mut q = [(a0, 1u8), (2u8, a1), (a1, a0)];", "let mut m = [[a0, 1u8], [a1, 2u8], [3u8, a0]];",
    ] {
        out.push(format!("    {l}"));
    }
    for s in &p.main {
        s_src(s, 1, "acc", &mut out);
    }
    out.push("    (acc, x, y, z, arr[0], arr[1], arr[2], brr[0], brr[1], brr[2], t.0, t.1, u.0, u.1, p.a, p.b, p.c, q[0].0, q[0].1, q[1].0, q[1].1, q[2].0, q[2].1, m[0][0], m[0][1], m[1][0], m[1][1], m[2][0], m[2][1])".to_string());
    out.push("}".to_string());
    out.join("\n")
}

// ------------------------------------------------------------------------------------------------ reference interpreter
type Scope = HashMap<&'static str, V>;

struct Interp<'a> {
    helpers: &'a [Func],
    flag: bool,
}

fn lookup<'e>(env: &'e mut [Scope], n: &str) -> &'e mut V {
    for sc in env.iter_mut().rev() {
        if let Some(v) = sc.get_mut(n) {
            return v;
        }
    }
    panic!("generator bug: {n} is not declared")
}

fn u8_of(v: &V) -> u8 {
    match v { V::U(n) => *n, _ => panic!("generator bug: not a u8") }
}

impl Interp<'_> {
    fn ix(&self, env: &mut Vec<Scope>, ix: &Ix, len: usize) -> usize {
        match ix {
            Ix::C(i) => *i,
            Ix::D(e) => (self.e(env, e) as usize) % len,
        }
    }

    fn agg(&self, env: &mut Vec<Scope>, a: &Agg) -> V {
        match a {
            Agg::Name(n) => lookup(env, n).clone(),
            Agg::Lit(es) => V::L(es.iter().map(|e| V::U(self.e(env, e))).collect()),
        }
    }

    fn e(&self, env: &mut Vec<Scope>, e: &E) -> u8 {
        match e {
            E::Lit(n) => *n,
            E::Var(n) => u8_of(lookup(env, n)),
            E::Idx(a, ix) => {
                let i = self.ix(env, ix, 3);
                match lookup(env, a) { V::L(vs) => u8_of(&vs[i]), _ => unreachable!() }
            }
            E::TupF(t, i) => match lookup(env, t) { V::L(vs) => u8_of(&vs[*i]), _ => unreachable!() },
            E::Fld(i) => match lookup(env, "p") { V::L(vs) => u8_of(&vs[*i]), _ => unreachable!() },
            E::M(i, j) => {
                let a = self.ix(env, i, 3);
                let b = self.ix(env, j, 2);
                match lookup(env, "m") { V::L(vs) => match &vs[a] { V::L(es) => u8_of(&es[b]), _ => unreachable!() }, _ => unreachable!() }
            }
            E::QF(ix, i) => {
                let j = self.ix(env, ix, 3);
                match lookup(env, "q") { V::L(vs) => match &vs[j] { V::L(fs) => u8_of(&fs[*i]), _ => unreachable!() }, _ => unreachable!() }
            }
            E::Bin(op, a, b) => {
                let (a, b) = (self.e(env, a), self.e(env, b));
                match *op { "^" => a ^ b, "&" => a & b, _ => a | b }
            }
            E::AddLow(a, b) => (self.e(env, a) & 15) + (self.e(env, b) & 15),
            E::IfE(c, a, b) => if self.c(env, c) { self.e(env, a) } else { self.e(env, b) },
            E::Call(f, h, x, arr, t) => {
                // arguments are evaluated in the caller's environment and passed BY VALUE; the callee sees the constants and its own parameters
                let mut params: Scope = HashMap::new();
                params.insert("acc", V::U(self.e(env, h)));
                params.insert("x", V::U(self.e(env, x)));
                params.insert("arr", self.agg(env, arr));
                params.insert("t", self.agg(env, t));
                let mut callee = vec![globals(), params];
                let func = &self.helpers[*f];
                callee.push(HashMap::new());
                for s in &func.body {
                    self.s(&mut callee, s, "acc");
                }
                self.e(&mut callee, &func.ret)
            }
        }
    }

    fn c(&self, env: &mut Vec<Scope>, c: &C) -> bool {
        match c {
            C::Flag => self.flag,
            C::Cmp(op, a, b) => {
                let (a, b) = (self.e(env, a), self.e(env, b));
                match *op { "<" => a < b, "==" => a == b, "!=" => a != b, _ => a >= b }
            }
            // the right operand of && / || is evaluated - and its effects happen - only when the left one does not decide
            C::And(a, b) => self.c(env, a) && self.c(env, b),
            C::Or(a, b) => self.c(env, a) || self.c(env, b),
            C::Not(a) => !self.c(env, a),
            C::Block(ss, c) => {
                env.push(HashMap::new());
                for s in ss {
                    self.s(env, s, "acc");
                }
                let r = self.c(env, c);
                env.pop();
                r
            }
        }
    }

    fn place<'e>(&self, env: &'e mut Vec<Scope>, p: &Place) -> &'e mut V {
        match p {
            Place::Var(n) => lookup(env, n),
            Place::Idx(a, ix) => {
                let i = self.ix(env, ix, 3);
                match lookup(env, a) { V::L(vs) => &mut vs[i], _ => unreachable!() }
            }
            Place::TupF(t, i) => match lookup(env, t) { V::L(vs) => &mut vs[*i], _ => unreachable!() },
            Place::Fld(i) => match lookup(env, "p") { V::L(vs) => &mut vs[*i], _ => unreachable!() },
            Place::M(i, j) => {
                let a = self.ix(env, i, 3);
                let b = self.ix(env, j, 2);
                match lookup(env, "m") { V::L(vs) => match &mut vs[a] { V::L(es) => &mut es[b], _ => unreachable!() }, _ => unreachable!() }
            }
            Place::QF(ix, i) => {
                let j = self.ix(env, ix, 3);
                match lookup(env, "q") { V::L(vs) => match &mut vs[j] { V::L(fs) => &mut fs[*i], _ => unreachable!() }, _ => unreachable!() }
            }
        }
    }

    fn block(&self, env: &mut Vec<Scope>, ss: &[S], tail: &E, acc: &'static str) -> u8 {
        env.push(HashMap::new());
        for s in ss {
            self.s(env, s, acc);
        }
        let r = self.e(env, tail);
        env.pop();
        r
    }

    fn xor_acc(&self, env: &mut Vec<Scope>, acc: &'static str, r: u8) {
        let a = lookup(env, acc);
        *a = V::U(u8_of(a) ^ r);
    }

    fn s(&self, env: &mut Vec<Scope>, s: &S, acc: &'static str) {
        match s {
            S::LetU8(n, _, e) => {
                let v = V::U(self.e(env, e));
                env.last_mut().unwrap().insert(n, v);
            }
            S::LetAgg(n, _, a) => {
                let v = self.agg(env, a);
                env.last_mut().unwrap().insert(n, v);
            }
            S::LetP(_, a, b, c) => {
                let v = V::L(vec![V::U(self.e(env, a)), V::U(self.e(env, b)), V::U(self.e(env, c))]);
                env.last_mut().unwrap().insert("p", v);
            }
            S::LetQ(_, es) => {
                let vs: Vec<u8> = es.iter().map(|e| self.e(env, e)).collect();
                let v = V::L(vec![V::L(vec![V::U(vs[0]), V::U(vs[1])]), V::L(vec![V::U(vs[2]), V::U(vs[3])]), V::L(vec![V::U(vs[4]), V::U(vs[5])])]);
                env.last_mut().unwrap().insert("q", v);
            }
            S::Assign(p, e) => {
                // Garble evaluates the assigned value first, then the accessors of the place (both are free of effects here)
                let v = self.e(env, e);
                *self.place(env, p) = V::U(v);
            }
            S::OpAssign(p, op, e) => {
                let v = self.e(env, e);
                let slot = self.place(env, p);
                let old = u8_of(slot);
                *slot = V::U(match *op { "^" => old ^ v, "&" => old & v, _ => old | v });
            }
            S::AssignAgg(n, a) => {
                let v = self.agg(env, a);
                *lookup(env, n) = v;
            }
            S::Block(_, ss, e) => {
                let r = self.block(env, ss, e, acc);
                self.xor_acc(env, acc, r);
            }
            S::If(_, c, ts, te, fs, fe) => {
                let r = if self.c(env, c) { self.block(env, ts, te, acc) } else { self.block(env, fs, fe, acc) };
                self.xor_acc(env, acc, r);
            }
            S::Match(_, e, arms) => {
                let v = (self.e(env, e) & 3) as usize;
                let k = (0..arms.len() - 1).find(|i| i.saturating_sub(1) <= v && v <= i + 1).unwrap_or(arms.len() - 1);
                let (ss, tail) = &arms[k];
                let r = self.block(env, ss, tail, acc);
                self.xor_acc(env, acc, r);
            }
            S::ForArr(v, es, body) => {
                let vals: Vec<u8> = es.iter().map(|e| self.e(env, e)).collect();
                for x in vals {
                    env.push(HashMap::new());
                    env.last_mut().unwrap().insert(v, V::U(x));
                    env.push(HashMap::new());
                    for s in body {
                        self.s(env, s, acc);
                    }
                    env.pop();
                    env.pop();
                }
            }
            S::AssignFx(x, k, c, ts, te, fs, fe) => {
                // the right-hand side is evaluated ONCE (with its effects), then stored
                let mut v = if self.c(env, c) { self.block(env, ts, te, acc) } else { self.block(env, fs, fe, acc) };
                if let Some(k) = k { v = k * (v & 15); }
                *lookup(env, x) = V::U(v);
            }
            S::AssignPlaceFx(pl, c, ts, te, fs, fe) => {
                // the right-hand side is evaluated first (with its effects), then the element / field is stored
                let v = if self.c(env, c) { self.block(env, ts, te, acc) } else { self.block(env, fs, fe, acc) };
                *self.place(env, pl) = V::U(v);
            }
            S::ForRange(v, lo, hi, body) => {
                for x in *lo..*hi {
                    env.push(HashMap::new());
                    env.last_mut().unwrap().insert(v, V::U(x));
                    env.push(HashMap::new());
                    for s in body {
                        self.s(env, s, acc);
                    }
                    env.pop();
                    env.pop();
                }
            }
        }
    }
}

fn globals() -> Scope {
    let mut g: Scope = HashMap::new();
    g.insert("K", V::U(K_VALUE));
    g
}

pub fn reference(p: &Program, a0: u8, a1: u8, flag: bool) -> Vec<u8> {
    let it = Interp { helpers: &p.helpers, flag };
    let mut main: Scope = HashMap::new();
    let u = V::U;
    main.insert("acc", u(0));
    main.insert("x", u(a0));
    main.insert("y", u(a1));
    main.insert("z", u(a0 ^ a1));
    main.insert("arr", V::L(vec![u(a0), u(a1), u(7)]));
    main.insert("brr", V::L(vec![u(a1), u(9), u(a0)]));
    main.insert("t", V::L(vec![u(a1), u(a0)]));
    main.insert("u", V::L(vec![u(3), u(a1)]));
    main.insert("p", V::L(vec![u(a0), u(3), u(a1)]));
    main.insert("q", V::L(vec![V::L(vec![u(a0), u(1)]), V::L(vec![u(2), u(a1)]), V::L(vec![u(a1), u(a0)])]));
    main.insert("m", V::L(vec![V::L(vec![u(a0), u(1)]), V::L(vec![u(a1), u(2)]), V::L(vec![u(3), u(a0)])]));
    let mut env = vec![globals(), main];
    for s in &p.main {
        it.s(&mut env, s, "acc");
    }
    let mut out = vec![];
    fn flat(v: &V, out: &mut Vec<u8>) {
        match v { V::U(n) => out.push(*n), V::L(vs) => vs.iter().for_each(|v| flat(v, out)) }
    }
    for n in ["acc", "x", "y", "z", "arr", "brr", "t", "u", "p", "q", "m"] {
        flat(lookup(&mut env, n), &mut out);
    }
    out
}

// ------------------------------------------------------------------------------------------------ generator
struct Gen<'r> {
    rng: &'r mut Rng,
    /// declared names per scope: mutable?
    vis: Vec<HashMap<&'static str, bool>>,
    helpers: usize, // helpers that may be called from here
    flag: bool,     // the bool input `c` is visible
    next_r: usize,
    budget: usize,
}

impl Gen<'_> {
    fn is_vis(&self, n: &str) -> Option<bool> {
        self.vis.iter().rev().find_map(|sc| sc.get(n).copied())
    }
    fn pick<'a, T: Copy>(&mut self, xs: &'a [T]) -> T {
        xs[self.rng.below(xs.len())]
    }
    fn vis_of(&self, pool: &[&'static str]) -> Vec<&'static str> {
        pool.iter().copied().filter(|n| self.is_vis(n).is_some()).collect()
    }
    fn mut_of(&self, pool: &[&'static str]) -> Vec<&'static str> {
        pool.iter().copied().filter(|n| self.is_vis(n) == Some(true)).collect()
    }

    fn ix(&mut self, len: usize, d: usize) -> Ix {
        if self.rng.below(2) == 0 { Ix::C(self.rng.below(len)) } else { Ix::D(Box::new(self.e(d + 2))) }
    }

    fn agg(&mut self, tuple: bool, d: usize) -> Agg {
        let names = self.vis_of(if tuple { &TUPS } else { &ARRS });
        if !names.is_empty() && self.rng.below(3) > 0 {
            Agg::Name(self.pick(&names))
        } else {
            Agg::Lit((0..if tuple { 2 } else { 3 }).map(|_| self.e(d + 2)).collect())
        }
    }

    fn e(&mut self, d: usize) -> E {
        let k = if d >= 3 { self.rng.below(7) } else { self.rng.below(13) };
        match k {
            0 => E::Lit(self.pick(&[0u8, 1, 2, 3, 5, 7, 16, 100, 255])),
            1 | 2 => {
                let mut names = self.vis_of(&U8S);
                if self.is_vis("acc").is_some() { names.push("acc"); }
                E::Var(self.pick(&names))
            }
            3 => {
                let names = self.vis_of(&ARRS);
                if names.is_empty() { E::Lit(4) } else { let n = self.pick(&names); E::Idx(n, self.ix(3, d)) }
            }
            4 => {
                let names = self.vis_of(&TUPS);
                if names.is_empty() { E::Lit(6) } else { E::TupF(self.pick(&names), self.rng.below(2)) }
            }
            5 => if self.is_vis("p").is_some() { E::Fld(self.rng.below(3)) } else { E::Lit(8) },
            6 => if self.rng.below(2) == 0 && self.is_vis("m").is_some() { let i = self.ix(3, d); let j = self.ix(2, d); E::M(i, j) } else if self.is_vis("q").is_some() { let ix = self.ix(3, d); E::QF(ix, self.rng.below(2)) } else { E::Lit(9) },
            7 | 8 => E::Bin(self.pick(&["^", "&", "|"]), Box::new(self.e(d + 1)), Box::new(self.e(d + 1))),
            9 => E::AddLow(Box::new(self.e(d + 1)), Box::new(self.e(d + 1))),
            10 => E::IfE(Box::new(self.c(d + 2, false)), Box::new(self.e(d + 1)), Box::new(self.e(d + 1))),
            _ => {
                if self.helpers == 0 {
                    E::Bin("^", Box::new(self.e(d + 1)), Box::new(self.e(d + 1)))
                } else {
                    let f = self.rng.below(self.helpers);
                    E::Call(f, Box::new(self.e(d + 2)), Box::new(self.e(d + 2)), self.agg(false, d), self.agg(true, d))
                }
            }
        }
    }

    /// conditions; `effects`: may contain a block with statements
    fn c(&mut self, d: usize, effects: bool) -> C {
        let k = if d >= 3 { self.rng.below(3) } else { self.rng.below(8) };
        match k {
            0 if self.flag => C::Flag,
            0 | 1 | 2 => C::Cmp(self.pick(&["<", "==", "!=", ">="]), self.e(d + 1), self.e(d + 1)),
            3 => C::And(Box::new(self.c(d + 1, effects)), Box::new(self.c(d + 1, effects))),
            4 => C::Or(Box::new(self.c(d + 1, effects)), Box::new(self.c(d + 1, effects))),
            5 => C::Not(Box::new(self.c(d + 1, effects))),
            _ => {
                if effects && self.budget > 0 {
                    self.vis.push(HashMap::new());
                    let n = 1 + self.rng.below(2);
                    let ss = self.stmts(n, d + 2);
                    let c = self.c(d + 2, false);
                    self.vis.pop();
                    C::Block(ss, Box::new(c))
                } else {
                    C::Cmp("<", self.e(d + 1), self.e(d + 1))
                }
            }
        }
    }

    fn place(&mut self, d: usize) -> Option<Place> {
        for _ in 0..6 {
            match self.rng.below(6) {
                0 | 1 => {
                    let mut names = self.mut_of(&U8S);
                    // K can only be assigned when a local K shadows the constant
                    names.retain(|n| *n != "K" || self.vis.iter().skip(1).any(|sc| sc.contains_key("K")));
                    if !names.is_empty() { return Some(Place::Var(self.pick(&names))); }
                }
                2 => {
                    let names = self.mut_of(&ARRS);
                    if !names.is_empty() { let n = self.pick(&names); return Some(Place::Idx(n, self.ix(3, d))); }
                }
                3 => {
                    let names = self.mut_of(&TUPS);
                    if !names.is_empty() { return Some(Place::TupF(self.pick(&names), self.rng.below(2))); }
                }
                4 => if self.is_vis("p") == Some(true) { return Some(Place::Fld(self.rng.below(3))); },
                _ => if self.rng.below(2) == 0 && self.is_vis("m") == Some(true) { let i = self.ix(3, d); let j = self.ix(2, d); return Some(Place::M(i, j)); } else if self.is_vis("q") == Some(true) { let ix = self.ix(3, d); return Some(Place::QF(ix, self.rng.below(2))); },
            }
        }
        None
    }

    fn declare(&mut self, n: &'static str, mutable: bool) {
        self.vis.last_mut().unwrap().insert(n, mutable);
    }

    fn body(&mut self, d: usize) -> (Vec<S>, E) {
        self.vis.push(HashMap::new());
        let n = self.rng.below(3);
        let ss = self.stmts(n, d + 1);
        let e = self.e(d + 1);
        self.vis.pop();
        (ss, e)
    }

    fn stmts(&mut self, n: usize, d: usize) -> Vec<S> {
        (0..n).filter_map(|_| self.stmt(d)).collect()
    }

    fn stmt(&mut self, d: usize) -> Option<S> {
        if self.budget == 0 {
            return None;
        }
        self.budget -= 1;
        let k = if d >= 3 { self.rng.below(11) } else { self.rng.below(19) };
        Some(match k {
            17 | 18 => {
                let mut names = self.mut_of(&U8S);
                if self.is_vis("acc") == Some(true) { names.push("acc"); }
                if names.is_empty() { return None; }
                let x = self.pick(&names);
                let mul = if self.rng.below(2) == 0 { Some(2 + self.rng.below(2) as u8) } else { None };
                let c = self.c(d + 1, false);
                let (ts, te) = self.body(d);
                let (fs, fe) = self.body(d);
                S::AssignFx(x, mul, c, ts, te, fs, fe)
            }
            0 | 1 | 2 | 3 => { let p = self.place(d)?; S::Assign(p, self.e(d)) }
            4 => { let p = self.place(d)?; S::OpAssign(p, self.pick(&["^", "&", "|"]), self.e(d)) }
            5 | 6 => {
                // a new binding - often of a name that is already bound (shadowing)
                let n = self.pick(&U8S);
                let e = self.e(d);
                let mu = self.rng.below(3) > 0;
                self.declare(n, mu);
                S::LetU8(n, mu, e)
            }
            7 => {
                let tuple = self.rng.below(2) == 0;
                let n = self.pick(if tuple { &TUPS } else { &ARRS });
                let a = self.agg(tuple, d);
                let mu = self.rng.below(3) > 0;
                self.declare(n, mu);
                S::LetAgg(n, mu, a)
            }
            8 => {
                let tuple = self.rng.below(2) == 0;
                let names = self.mut_of(if tuple { &TUPS } else { &ARRS });
                if names.is_empty() { return None; }
                let n = self.pick(&names);
                S::AssignAgg(n, self.agg(tuple, d))
            }
            9 => {
                let (a, b, c) = (self.e(d), self.e(d), self.e(d));
                let mu = self.rng.below(3) > 0;
                self.declare("p", mu);
                S::LetP(mu, a, b, c)
            }
            10 => {
                let es = (0..6).map(|_| self.e(d + 1)).collect();
                let mu = self.rng.below(3) > 0;
                self.declare("q", mu);
                S::LetQ(mu, es)
            }
            11 => { let k = self.fresh(); let (ss, e) = self.body(d); S::Block(k, ss, e) }
            12 | 13 => {
                let k = self.fresh();
                let c = self.c(d, true);
                let (ts, te) = self.body(d);
                let (fs, fe) = self.body(d);
                S::If(k, c, ts, te, fs, fe)
            }
            14 => {
                let k = self.fresh();
                let e = self.e(d + 1);
                let n = 2 + self.rng.below(3);
                let arms = (0..n).map(|_| self.body(d)).collect();
                S::Match(k, e, arms)
            }
            15 => {
                let v = self.pick(&U8S);
                let n = 1 + self.rng.below(3);
                let es = (0..n).map(|_| self.e(d + 1)).collect();
                S::ForArr(v, es, self.loop_body(v, d))
            }
            _ => {
                let v = self.pick(&U8S);
                let lo = self.rng.below(3) as u8;
                let hi = lo + 1 + self.rng.below(3) as u8;
                S::ForRange(v, lo, hi, self.loop_body(v, d))
            }
        })
    }

    fn fresh(&mut self) -> usize {
        self.next_r += 1;
        self.next_r
    }

    fn loop_body(&mut self, v: &'static str, d: usize) -> Vec<S> {
        self.vis.push(HashMap::new());
        self.declare(v, false);
        self.vis.push(HashMap::new());
        let n = 1 + self.rng.below(2);
        let ss = self.stmts(n, d + 1);
        self.vis.pop();
        self.vis.pop();
        ss
    }
}

fn global_vis() -> HashMap<&'static str, bool> {
    let mut g = HashMap::new();
    g.insert("K", false);
    g
}

pub fn random_program(rng: &mut Rng) -> Program {
    let n_helpers = rng.below(3);
    let mut helpers = vec![];
    let mut next_r = 0;
    for i in 0..n_helpers {
        let mut params = HashMap::new();
        for n in ["acc", "x", "arr", "t"] {
            params.insert(n, true);
        }
        let budget = 2 + rng.below(4);
        let mut g = Gen { rng: &mut *rng, vis: vec![global_vis(), params, HashMap::new()], helpers: i, flag: false, next_r, budget };
        let n = 1 + g.rng.below(3);
        let body = g.stmts(n, 1);
        let ret = g.e(1);
        next_r = g.next_r;
        helpers.push(Func { body, ret });
    }
    let mut main_vis = HashMap::new();
    for n in ["acc", "x", "y", "z", "arr", "brr", "t", "u", "p", "q", "m"] {
        main_vis.insert(n, true);
    }
    let budget = 4 + rng.below(9);
    let mut g = Gen { rng: &mut *rng, vis: vec![global_vis(), main_vis], helpers: n_helpers, flag: true, next_r, budget };
    let n = 2 + g.rng.below(5);
    let mut main = g.stmts(n, 0);
    // every helper must be used (an unused function is rejected by the type checker)
    let text = main.iter().map(|s| { let mut o = vec![]; s_src(s, 0, "acc", &mut o); o.join(" ") }).collect::<Vec<_>>().join(" ")
        + &helpers.iter().map(|f: &Func| { let mut o = vec![]; for s in &f.body { s_src(s, 0, "acc", &mut o); } o.join(" ") + &e_src(&f.ret) }).collect::<Vec<_>>().join(" ");
    for i in 0..n_helpers {
        if !text.contains(&format!("f{i}(")) {
            main.push(S::Assign(Place::Var("acc"), E::Bin("^", Box::new(E::Var("acc")), Box::new(E::Call(i, Box::new(E::Var("acc")), Box::new(E::Lit(1)), Agg::Lit(vec![E::Lit(1), E::Lit(2), E::Lit(3)]), Agg::Lit(vec![E::Lit(4), E::Lit(5)]))))));
        }
    }
    Program { helpers, main }
}

// ------------------------------------------------------------------------------------------------ check
fn u8_bits(v: u8) -> Vec<bool> {
    (0..8).map(|i| (v >> (7 - i)) & 1 == 1).collect()
}

/// compiles the text and evaluates it: None if the program is rejected, else (panic flag, the 20 output values)
pub fn run_real(src: &str, a0: u8, a1: u8, flag: bool, n_out: usize) -> Option<Result<(bool, Vec<u8>), String>> {
    let prg = match std::panic::catch_unwind(|| garble_lang::compile(src)) {
        Ok(Ok(p)) => p,
        Ok(Err(_)) => return None,
        Err(_) => return Some(Err("the compiler panicked".to_string())),
    };
    let out = prg.circuit.eval(&[u8_bits(a0), u8_bits(a1), vec![flag]]);
    if out.len() != 161 + 8 * n_out {
        return Some(Err(format!("the circuit has {} output bits, expected {}", out.len(), 161 + 8 * n_out)));
    }
    let vals = (0..n_out).map(|k| out[161 + 8 * k..161 + 8 * k + 8].iter().fold(0u8, |a, b| (a << 1) | (*b as u8))).collect();
    Some(Ok((out[0], vals)))
}

const NAMES: [&str; OUTPUTS] = ["acc", "x", "y", "z", "arr[0]", "arr[1]", "arr[2]", "brr[0]", "brr[1]", "brr[2]", "t.0", "t.1", "u.0", "u.1", "p.a", "p.b", "p.c", "q[0].0", "q[0].1", "q[1].0", "q[1].1", "q[2].0", "q[2].1", "m[0][0]", "m[0][1]", "m[1][0]", "m[1][1]", "m[2][0]", "m[2][1]"];

/// Ok(true): checked, Ok(false): rejected by the compiler (not this property), Err: a difference
pub fn check_program(p: &Program, inputs: &[(u8, u8, bool)]) -> Result<bool, String> {
    let src = program_src(p);
    let prg = match std::panic::catch_unwind(|| garble_lang::compile(&src)) {
        Ok(Ok(p)) => p,
        Ok(Err(_)) => return Ok(false),
        Err(_) => return Ok(false), // a compiler crash is not this property (C05 / C07)
    };
    for &(a0, a1, flag) in inputs {
        let want = reference(p, a0, a1, flag);
        let out = prg.circuit.eval(&[u8_bits(a0), u8_bits(a1), vec![flag]]);
        if out.len() != 161 + 8 * OUTPUTS {
            return Err(format!("the circuit has {} output bits, expected {}", out.len(), 161 + 8 * OUTPUTS));
        }
        if out[0] {
            return Err(format!("input: {a0} {a1} {flag}\nexpected: {}\nobserved: the circuit reports a panic although no operation of the program can fail", fmt_vals(&want)));
        }
        let got: Vec<u8> = (0..OUTPUTS).map(|k| out[161 + 8 * k..161 + 8 * k + 8].iter().fold(0u8, |a, b| (a << 1) | (*b as u8))).collect();
        if got != want {
            let diff: Vec<String> = (0..OUTPUTS).filter(|k| got[*k] != want[*k]).map(|k| format!("{} is {} (expected {})", NAMES[k], got[k], want[k])).collect();
            return Err(format!("input: {a0} {a1} {flag}\nexpected: {}\nobserved: at the end of main {}", fmt_vals(&want), diff.join(", ")));
        }
    }
    Ok(true)
}

fn fmt_vals(v: &[u8]) -> String {
    v.iter().map(|x| x.to_string()).collect::<Vec<_>>().join(" ")
}

// ------------------------------------------------------------------------------------------------ shrinking
fn shrink_list(ss: &[S]) -> Vec<Vec<S>> {
    let mut out = vec![];
    for i in 0..ss.len() {
        // without statement i (a removed `let` can make the program ill-typed: such candidates are rejected and skipped)
        let mut v = ss.to_vec();
        v.remove(i);
        out.push(v);
        // statement i replaced by the statements of one of its bodies / with one body shrunk
        let subs: Vec<Vec<S>> = match &ss[i] {
            S::Block(_, b, _) => vec![b.clone()],
            S::If(_, _, t, _, f, _) => vec![t.clone(), f.clone()],
            S::Match(_, _, arms) => arms.iter().map(|a| a.0.clone()).collect(),
            S::ForArr(_, _, b) | S::ForRange(_, _, _, b) => vec![b.clone()],
            S::AssignFx(_, _, _, t, _, f, _) => vec![t.clone(), f.clone()],
            _ => vec![],
        };
        for sub in subs {
            let mut v = ss.to_vec();
            v.splice(i..i + 1, sub);
            out.push(v);
        }
        let inner: Vec<S> = match &ss[i] {
            S::Block(k, b, e) => shrink_list(b).into_iter().map(|b2| S::Block(*k, b2, e.clone())).collect(),
            S::If(k, c, t, te, f, fe) => {
                let mut r: Vec<S> = shrink_list(t).into_iter().map(|t2| S::If(*k, c.clone(), t2, te.clone(), f.clone(), fe.clone())).collect();
                r.extend(shrink_list(f).into_iter().map(|f2| S::If(*k, c.clone(), t.clone(), te.clone(), f2, fe.clone())));
                r
            }
            S::AssignFx(x, k, c, t, te, f, fe) => {
                let mut r: Vec<S> = shrink_list(t).into_iter().map(|t2| S::AssignFx(x, *k, c.clone(), t2, te.clone(), f.clone(), fe.clone())).collect();
                r.extend(shrink_list(f).into_iter().map(|f2| S::AssignFx(x, *k, c.clone(), t.clone(), te.clone(), f2, fe.clone())));
                r
            }
            S::ForArr(v, es, b) => shrink_list(b).into_iter().map(|b2| S::ForArr(v, es.clone(), b2)).collect(),
            S::ForRange(v, lo, hi, b) => shrink_list(b).into_iter().map(|b2| S::ForRange(v, *lo, *hi, b2)).collect(),
            _ => vec![],
        };
        for s2 in inner {
            let mut v = ss.to_vec();
            v[i] = s2;
            out.push(v);
        }
    }
    out
}

fn uses_all_helpers(p: &Program) -> bool {
    let src = program_src(p);
    (0..p.helpers.len()).all(|i| src.matches(&format!("f{i}(")).count() >= 2)
}

fn shrink(mut p: Program, inputs: &[(u8, u8, bool)], mut what: String) -> (Program, String) {
    let mut progress = true;
    let mut rounds = 0;
    while progress && rounds < 200 {
        progress = false;
        rounds += 1;
        let mut cands: Vec<Program> = shrink_list(&p.main).into_iter().map(|m| Program { helpers: p.helpers.clone(), main: m }).collect();
        for (i, f) in p.helpers.iter().enumerate() {
            for b in shrink_list(&f.body) {
                let mut hs = p.helpers.clone();
                hs[i] = Func { body: b, ret: f.ret.clone() };
                cands.push(Program { helpers: hs, main: p.main.clone() });
            }
        }
        // drop the last helper if nothing calls it any more
        if let Some(last) = p.helpers.len().checked_sub(1) {
            if program_src(&p).matches(&format!("f{last}(")).count() == 1 {
                cands.insert(0, Program { helpers: p.helpers[..last].to_vec(), main: p.main.clone() });
            }
        }
        for c in cands {
            if !uses_all_helpers(&c) {
                continue;
            }
            if let Err(w) = check_program(&c, inputs) {
                p = c;
                what = w;
                progress = true;
                break;
            }
        }
    }
    (p, what)
}

fn report(p: &Program, what: &str, seed: u64) -> String {
    format!("kind: c14-program\nseed: {seed}\n{what}\n--- program ---\n{}\n--- end ---\n", program_src(p))
}

fn inputs_for(rng: &mut Rng) -> Vec<(u8, u8, bool)> {
    let vals = [0u8, 1, 2, 3, 4, 5, 6, 7, 8, 15, 16, 100, 128, 255];
    let mut v = vec![];
    for _ in 0..12 {
        let a0 = if rng.below(3) == 0 { rng.next() as u8 } else { vals[rng.below(vals.len())] };
        let a1 = if rng.below(3) == 0 { rng.next() as u8 } else { vals[rng.below(vals.len())] };
        v.push((a0, a1, rng.below(2) == 0));
    }
    v
}

/// Known finding C14-F1 (directed programs, not part of the random generation): VarAssign reads the assigned variable before it compiles the
/// right-hand side, so an assignment to the SAME variable inside the right-hand side of an element / field assignment is lost.
fn f1_programs() -> Vec<Program> {
    let t = || C::Cmp("==", E::Lit(1), E::Lit(1));
    let mk = |s: S| Program { helpers: vec![], main: vec![s] };
    vec![
        // arr[0] = (if 1 == 1 { arr[1] = x; 7 } else { 0 });
        mk(S::AssignPlaceFx(Place::Idx("arr", Ix::C(0)), t(), vec![S::Assign(Place::Idx("arr", Ix::C(1)), E::Var("x"))], E::Lit(7), vec![], E::Lit(0))),
        // t.0 = (if 1 == 1 { t.1 = y; 7 } else { 0 });
        mk(S::AssignPlaceFx(Place::TupF("t", 0), t(), vec![S::Assign(Place::TupF("t", 1), E::Var("y"))], E::Lit(7), vec![], E::Lit(0))),
        // p.a = (if c { p.c = 9; 1 } else { 2 });
        mk(S::AssignPlaceFx(Place::Fld(0), C::Flag, vec![S::Assign(Place::Fld(2), E::Lit(9))], E::Lit(1), vec![], E::Lit(2))),
    ]
}

pub fn search(args: &[String]) -> i32 {
    let seed = arg_u64(args, "--seed", 1);
    let programs = arg_u64(args, "--programs", 1500);
    let known: Vec<String> = arg(args, "--known").map(|s| s.split(',').map(|x| x.to_string()).collect()).unwrap_or_default();
    let mut rng = Rng(seed ^ 0xC14);
    let (mut checked, mut rejected) = (0u64, 0u64);
    let prev = std::panic::take_hook();
    if std::env::var("REPLAY_DEBUG").is_err() {
        std::panic::set_hook(Box::new(|_| {}));
    }
    let mut found = None;
    let mut f1_cases = 0;
    for p in f1_programs() {
        let inputs = [(5u8, 200u8, true), (0, 1, false), (255, 7, true)];
        if let Err(w) = check_program(&p, &inputs) {
            if known.iter().any(|k| k == "C14-F1") {
                f1_cases += 1;
            } else {
                found = Some(report(&p, &w, seed));
                break;
            }
        }
    }
    if f1_cases > 0 {
        println!("known-finding: C14-F1 cases={f1_cases} example=arr[0] = (if 1u8 == 1u8 {{ arr[1] = x; 7u8 }} else {{ 0u8 }}) leaves arr[1] unchanged");
    }
    for _ in 0..programs {
        if found.is_some() { break; }
        let p = random_program(&mut rng);
        let inputs = inputs_for(&mut rng);
        match check_program(&p, &inputs) {
            Ok(true) => checked += 1,
            Ok(false) => {
                rejected += 1;
                if std::env::var("REPLAY_DEBUG").is_ok() && rejected <= 3 {
                    let src = program_src(&p);
                    println!("REJECTED:\n{src}\n{:?}", garble_lang::compile(&src).err());
                }
            }
            Err(w) => {
                let (p2, w2) = shrink(p, &inputs, w);
                let text = report(&p2, &w2, seed);
                found = Some(text);
                break;
            }
        }
    }
    std::panic::set_hook(prev);
    match found {
        Some(text) => {
            write_out(args, &text);
            3
        }
        None => {
            println!("c14 search: {checked} programs compared with the reference interpreter on 12 inputs each ({rejected} rejected by the compiler and skipped)");
            0
        }
    }
}

pub fn replay(text: &str) -> i32 {
    let Some(start) = text.find("--- program ---\n") else { eprintln!("no program in the replay file"); return 2 };
    let Some(end) = text.find("\n--- end ---") else { eprintln!("no program end in the replay file"); return 2 };
    let src = &text[start + 16..end];
    let (Some(input), Some(expected)) = (field(text, "input"), field(text, "expected")) else { eprintln!("no input / expected line"); return 2 };
    let parts: Vec<&str> = input.split_whitespace().collect();
    let (a0, a1, flag): (u8, u8, bool) = (parts[0].parse().unwrap(), parts[1].parse().unwrap(), parts[2] == "true");
    let want: Vec<u8> = expected.split_whitespace().map(|x| x.parse().unwrap()).collect();
    match run_real(src, a0, a1, flag, want.len()) {
        None => { println!("the program is rejected by the compiler"); 0 }
        Some(Err(e)) => { println!("reproduced: {e}"); 3 }
        Some(Ok((panic, got))) => {
            if panic || got != want {
                println!("reproduced: panic flag {panic}, values {} (expected {})", fmt_vals(&got), fmt_vals(&want));
                3
            } else {
                println!("not reproduced: the values are the expected ones");
                0
            }
        }
    }
}
