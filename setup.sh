#!/bin/bash
# Run once after a fresh restore (offline): warm the build caches the checks use.  Every check rebuilds what
# it needs from /repo's current tree by itself; this only makes the first run faster.
cd "$(dirname "$(readlink -f "$0")")"
export CARGO_NET_OFFLINE=true
mkdir -p evidence replays
( cd replay && cp -f /repo/Cargo.lock Cargo.lock 2>/dev/null; cargo build --release --offline --quiet ) || echo "setup: replay build failed (checks will retry)"
exit 0
